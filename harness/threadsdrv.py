"""threads_driver experiments -> Script_Trace events (C24)."""
import os, json, random, subprocess, tempfile, copy
from fractions import Fraction
import gen as G
import core as C
import builders as B
from smtlib import REAL, INT

def driver(flavour):
    return os.path.join(C.BUILD, "drivers", flavour, "threads_driver")

BIGS = [2**64 + 13, 2**65, 3 * 2**63 + 1, 10**20 + 7, 2**70 - 1, 2**32 + 1, 2**31 - 1]

def big_script(g, rng, n=5):
    """assertions with coefficients beyond machine words (forces the arbitrary-precision path)"""
    tb = g.tb
    S = g.num
    out = []
    atoms = []
    for _ in range(n):
        k = rng.choice([1, 2, 2, 3])
        parts = []
        for v in rng.sample(g.nums, min(k, len(g.nums))):
            c = rng.choice(BIGS) * rng.choice([1, -1])
            parts.append(tb.app("*", [tb.num(c, S), v]))
        lhs = parts[0] if len(parts) == 1 else tb.app("+", parts)
        rhs = tb.num(rng.choice(BIGS) * rng.choice([1, -1, 0]), S)
        atoms.append(tb.app(rng.choice(["<=", ">=", "<", ">"]), [lhs, rhs]))
    if g.uf:
        atoms += [g.atom() for _ in range(2)]
    for _ in range(n):
        out.append({"c": "assert", "t": g.formula(atoms, 1), "nm": "", "inner": []})
    return out

def b_threads(job):
    rng = random.Random(job["seed"])
    nthreads = job.get("threads", rng.randint(2, 8))
    flavour = job.get("flavour", "rel")
    rounds = job.get("rounds", 3)
    fams = []
    paths = []
    os.makedirs(C.SCRATCH, exist_ok=True)
    for t in range(nthreads):
        logic = rng.choice(job.get("logics", ["QF_LRA", "QF_LIA", "QF_UFLRA", "QF_UF", "QF_LRA"]))
        g = G.Gen(rng, logic)
        body = big_script(g, rng) if g.num else G.random_history(g, rng, n_assert=5, final_check=False, max_depth=0)
        body = [c for c in body if c["c"] == "assert" or c["c"] == "define"]
        pre = G.preamble(g, [])
        fam = C.Family(g)
        base = fam.add_run("s%d" % t, "solo", "main", pre + body + [{"c": "check-sat"}], timeout=30)
        text = G.render_script(pre + body, g.tb, markers=False)
        fd, path = tempfile.mkstemp(suffix=".smt2", dir=C.SCRATCH)
        with os.fdopen(fd, "w") as f:
            f.write(text)
        paths.append(path)
        fams.append((fam, base, text))
    results = []
    san = False
    err = ""
    try:
        env = dict(os.environ)
        env["TSAN_OPTIONS"] = "halt_on_error=0:exitcode=96:report_signal_unsafe=0"
        try:
            p = subprocess.run([driver(flavour), str(rounds)] + paths, stdout=subprocess.PIPE, stderr=subprocess.PIPE, timeout=120, env=env)
            out = p.stdout.decode("utf-8", "replace")
            err = p.stderr.decode("utf-8", "replace")
            rc = p.returncode
        except subprocess.TimeoutExpired:
            out, rc = "", -9
        san = "ThreadSanitizer" in err or "AddressSanitizer" in err
        for ln in out.split("\n"):
            if ln.startswith('{"round"'):
                try:
                    results.append(json.loads(ln)["res"])
                except Exception:
                    pass
        crashed = rc not in (0, 96) or len(results) < rounds
    finally:
        for pth in paths:
            os.unlink(pth)
    events = []
    answers = []
    for t, (fam, base, text) in enumerate(fams):
        evs = fam.events()
        events += evs
        run_start = next(i for i, e in enumerate(evs) if e["e"] == "Run")
        base_evs = evs[run_start:]
        answers += base.get("answers", [])
        for r in range(rounds):
            res = results[r][t] if r < len(results) and t < len(results[r]) else "crash"
            clone = copy.deepcopy(base_evs)
            for e in clone:
                if e["e"] == "Run":
                    e["kind"] = "thread"; e["cfg"] = "solo"     # same configuration: a different answer is a C04-type conflict
                elif e["e"] == "Cmd" and e["c"] == "check-sat":
                    e["r"] = res if res in ("sat", "unsat", "unknown") else "unknown"
                elif e["e"] == "Exit":
                    e["status"] = 0 if res in ("sat", "unsat", "unknown") else 1
                    e["sig"] = 6 if (res == "crash" or res.startswith("exception")) else 0
                    e["san"] = bool(san) and t == 0 and r == 0
                    e["det"] = False; e["nerr"] = 0; e["synerr"] = False; e["site"] = ""
            events += clone
            answers.append(res)
    sample = {"builder": "threads", "seed": job["seed"], "threads": nthreads, "rounds": rounds, "flavour": flavour,
              "script": fams[0][2][:1000], "results": results[:3], "sanitizer": err[-600:] if san else ""}
    return {"events": events, "runs": nthreads * (rounds + 1), "sample": sample,
            "nontrivial": any(a in ("sat", "unsat") for a in answers),
            "texts": [{"sid": "s%d" % t, "cfg": "solo", "kind": "main", "io": "file", "text": text, "out": json.dumps(results)[:500] + "\n" + err[-2500:],
                       "status": 0, "sig": 0} for t, (fam, base, text) in enumerate(fams)],
            "stats": {"answers": answers, "threads": nthreads, "sanitizer": san}}

B.BUILDERS["threads"] = b_threads
