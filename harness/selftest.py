#!/usr/bin/env python3
"""Binding self-test: the trace specifications must reject corrupted traces and the design
models must fail for the pre-fix disciplines.  Exit 0 if every expectation is met."""
import sys, os, json, copy
sys.path.insert(0, os.path.dirname(os.path.abspath(__file__)))
import tlc as T, builders, check

def write(evs, name):
    d = os.path.join(check.TRACES, "selftest")
    os.makedirs(d, exist_ok=True)
    p = os.path.join(d, name + ".ndjson")
    with open(p, "w") as f:
        for e in evs:
            f.write(json.dumps(e, separators=(",", ":")) + "\n")
    return p

def tags(r):
    return sorted(set(v.get("p") for v in r["viols"]))

ok = True
def expect(cond, what):
    global ok
    print(("PASS " if cond else "FAIL ") + what)
    ok = ok and cond

# ---- Script_Trace
fr = None
for seed in range(11, 40):
    fr = builders.build({"builder": "rounding", "seed": seed, "logic": "QF_LIA", "n_assert": 4})
    ans = fr["stats"]["answers"]
    if "sat" in ans and "unsat" in ans:
        break
evs = fr["events"]
r = T.validate(write(evs, "good"))
expect(r["ok"] and not r["viols"], "Script_Trace accepts a recorded execution (answers %s)" % fr["stats"]["answers"])
e2 = copy.deepcopy(evs)
for e in e2:
    if e.get("e") == "Cmd" and e.get("c") == "check-sat" and e["r"] == "sat":
        e["r"] = "unsat"; break
r = T.validate(write(e2, "flip_sat"))
expect("C01" in tags(r), "a sat answer rewritten to unsat is a C01 violation (%s)" % tags(r))
e2 = copy.deepcopy(evs)
for e in e2:
    if e.get("e") == "Cmd" and e.get("c") == "check-sat" and e["r"] == "unsat" and e.get("mon"):
        e["r"] = "sat"; break
r = T.validate(write(e2, "flip_unsat"))
expect("C02" in tags(r) or "C04" in tags(r), "an unsat answer rewritten to sat is flagged (%s)" % tags(r))
e2 = copy.deepcopy(evs)
for e in e2:
    if e.get("e") == "Exit":
        e["status"] = 0 if e["nerr"] > 0 else 3
r = T.validate(write(e2, "bad_exit"))
expect("C18" in tags(r), "an exit status that contradicts the diagnostics is a C18 violation (%s)" % tags(r))
e2 = copy.deepcopy(evs)
e2.insert(3, {"e": "Bogus"})
r = T.validate(write(e2, "bogus"))
expect(r["rejected_at"] == 4, "an event that no action of the specification matches rejects the trace at that line (%s)" % r["rejected_at"])
e2 = copy.deepcopy(evs)
for e in e2:
    if e.get("e") == "Cmd" and e.get("c") == "get-model" and e.get("pok") and e["m"]:
        # change the value of one symbol in the printed model
        tt = e2[0]["tt"]
        for d in e["m"]:
            if tt[d["b"] - 1]["k"] == "n":
                tt.append(dict(tt[d["b"] - 1], n=tt[d["b"] - 1]["n"] + 7)); d["b"] = len(tt)
        break
r = T.validate(write(e2, "bad_model"))
expect("C03" in tags(r), "a model with one value changed is a C03 violation (%s)" % tags(r))

# ---- Engine_Trace
fe = None
for seed in range(3, 60):
    fe = builders.build({"builder": "engine", "seed": seed, "logic": "QF_LRA", "cfgs": ["c0"], "mode": "cnf", "n_atoms": 8})
    st = fe["stats"]
    if st.get("learnt", 0) > 0 and st.get("farkas", 0) > 0 and st.get("tcl", 0) > 0:
        break
evs = fe["events"]
r = T.validate(write(evs, "egood"), "Engine_Trace")
expect(r["ok"] and not r["viols"], "Engine_Trace accepts a recorded execution")
e2 = copy.deepcopy(evs); done = set()
for e in e2:
    if e.get("e") == "farkas" and e["mon"] and "f" not in done and len(e["coefs"]) > 1:
        e["coefs"][0]["n"] += 1; done.add("f")
    if e.get("e") == "cl" and e["kind"] == "learnt" and "l" not in done:
        e["lits"] = [9999]; done.add("l")
r = T.validate(write(e2, "ebad"), "Engine_Trace")
expect({"C12", "C26"} <= set(tags(r)), "a changed Farkas coefficient and a foreign learnt clause are C26 and C12 violations (%s)" % tags(r))

# ---- design models of the pre-fix code must fail
for m in ("MC_SharedPool_shared", "MC_PipeReader_noesc"):
    r = T.model_check(m, workers=4, timeout=600, coverage=False)
    expect(not r["ok"] and r["rc"] == 12, "%s violates its invariant (the defect is visible in the model)" % m)
print("selftest", "ok" if ok else "FAILED")
sys.exit(0 if ok else 1)
