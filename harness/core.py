"""Running the opensmt binary, aligning output with commands, candidate models (hints),
and building ndjson traces for spec/trace/Script_Trace.tla."""
import os, subprocess, hashlib, json, signal, tempfile, time, re, sys
from fractions import Fraction
from smtlib import (Table, Signature, read_all, parse_term, parse_model, parse_sort, sexpr_str, is_sym, Atom,
                    SmtError, LexError, SortError, BOOL, INT, REAL, quote_sym)
import gen as G

VERIF = os.path.dirname(os.path.dirname(os.path.abspath(__file__)))
# VERIF_BUILD / VERIF_EVID / VERIF_REPO redirect build output, evidence and the source tree (used by bin/seedrun to test
# a seeded change in a scratch worktree without touching /repo or the build of the registered checks)
BUILD = os.environ.get("VERIF_BUILD") or os.path.join(VERIF, "build")
BIN = os.environ.get("OSMT_BIN", os.path.join(BUILD, "rel", "opensmt"))
SCRATCH = os.path.join(BUILD, "scratch")

MAXNUM = 20000      # constants beyond this are not given to TLC (32-bit arithmetic)
MAXDEN = 720

# ------------------------------------------------------------------ running
def run_opensmt(text, io="file", timeout=20, binary=None, chunks=None, env=None, cwd=None, extra_args=()):
    """-> dict(out, err, status, sig, to, wall)"""
    binary = binary or BIN
    os.makedirs(SCRATCH, exist_ok=True)
    t0 = time.time()
    e = dict(os.environ)
    e["ASAN_OPTIONS"] = "detect_leaks=0:abort_on_error=0:exitcode=97"
    e["UBSAN_OPTIONS"] = "print_stacktrace=1:halt_on_error=1:exitcode=98"
    if env:
        e.update(env)
    if io == "file":
        fd, path = tempfile.mkstemp(suffix=".smt2", dir=SCRATCH)
        with os.fdopen(fd, "w") as f:
            f.write(text)
        try:
            try:
                p = subprocess.run([binary] + list(extra_args) + [path], stdout=subprocess.PIPE, stderr=subprocess.PIPE,
                                   timeout=timeout, env=e, cwd=cwd)
                out, err, rc, to = p.stdout, p.stderr, p.returncode, False
            except subprocess.TimeoutExpired as ex:
                out, err, rc, to = ex.stdout or b"", ex.stderr or b"", -9, True
        finally:
            os.unlink(path)
    else:
        p = subprocess.Popen([binary, "-p"] + list(extra_args), stdin=subprocess.PIPE, stdout=subprocess.PIPE,
                             stderr=subprocess.PIPE, env=e, cwd=cwd)
        data = text.encode()
        to = False
        try:
            if chunks and chunks[0] == "cuts":
                # explicit cut positions; a pause after every piece so that the reader's read() returns exactly there
                prev = 0
                for c in list(chunks[1:]) + [len(data)]:
                    if c <= prev or c > len(data):
                        continue
                    try:
                        p.stdin.write(data[prev:c]); p.stdin.flush()
                    except BrokenPipeError:
                        break
                    prev = c
                    time.sleep(0.003)
                try:
                    p.stdin.close()
                except BrokenPipeError:
                    pass
                out = p.stdout.read(); err = p.stderr.read()
                p.wait(timeout=timeout)
            elif chunks:
                pos = 0
                ci = 0
                while pos < len(data):
                    n = chunks[ci % len(chunks)]; ci += 1
                    try:
                        p.stdin.write(data[pos:pos + n]); p.stdin.flush()
                    except BrokenPipeError:
                        break
                    pos += n
                    if n >= 8:
                        time.sleep(0.0005)
                try:
                    p.stdin.close()
                except BrokenPipeError:
                    pass
                out = p.stdout.read(); err = p.stderr.read()
                p.wait(timeout=timeout)
            else:
                out, err = p.communicate(data, timeout=timeout)
            rc = p.returncode
        except subprocess.TimeoutExpired:
            p.kill()
            out, err = p.communicate()
            rc, to = -9, True
    sig = -rc if (rc is not None and rc < 0 and not to) else 0
    outs = out.decode("utf-8", "replace")
    errs = err.decode("utf-8", "replace")
    san = ("ERROR: AddressSanitizer" in errs or "runtime error:" in errs or "ThreadSanitizer" in errs
           or rc in (97, 98))
    site = ""
    if san or (rc is not None and rc < 0) or "terminate called" in errs:
        m = re.search(r"#\d+ 0x[0-9a-f]+ in (opensmt::[A-Za-z0-9_:<>~]+)", errs)
        if m:
            site = m.group(1)
        else:
            m = re.search(r"terminate called after throwing an instance of '([^']+)'", errs)
            site = m.group(1) if m else ""
        site = re.sub(r"<.*", "", site)[:80]
    return {"out": outs, "err": errs, "status": rc if rc is not None and rc >= 0 else 128 + sig,
            "sig": sig, "to": to, "san": san, "site": site, "wall": time.time() - t0}

MARK = re.compile(r"^@@(\d+)$")

def split_output(out, ncmds):
    """segments[k] = output lines produced by command k+1 (between markers); done = number of
    markers seen.  Lines starting with ';' (solver comments) are dropped."""
    segs = [[] for _ in range(ncmds + 1)]
    cur = 0
    for line in out.split("\n"):
        m = MARK.match(line.strip())
        if m:
            cur = int(m.group(1))
            continue
        if line.startswith(";"):
            continue
        if cur < ncmds:
            segs[cur].append(line)
        else:
            segs[ncmds].append(line)
    return ["\n".join(s).strip() for s in segs[:ncmds]], cur, "\n".join(segs[ncmds]).strip()

# ------------------------------------------------------------------ mirror of the Script state
class Mirror:
    """Python copy of the abstract state of spec/Script.tla, used only to know which
    assertion sets to ask candidate models for.  Never used to judge anything."""
    def __init__(self):
        self.stack = [[]]
        self.names = {}
        self.defs = {}
        self.opts = {"incremental": "true", "globaldecl": "false"}
        self.mode = "start"
        self.fids = [0]
        self.next_fid = 1
    def depth(self):
        return len(self.stack) - 1
    def entries(self):
        return [e for fr in self.stack for e in fr]
    def active(self):
        return [t for t, _ in self.entries()]
    def step(self, cmd, r):
        if r == "error":
            return
        c = cmd["c"]
        glob = self.opts.get("globaldecl") == "true"
        if c == "set-option":
            key = {":incremental": "incremental", ":global-declarations": "globaldecl", ":print-cores-full": "fullcores",
                   ":minimal-unsat-cores": "mincores", ":produce-unsat-cores": "cores",
                   ":produce-interpolants": "itp", ":produce-models": "models"}.get(cmd["k"])
            if key:
                self.opts[key] = cmd["v"]
        elif c == "assert":
            self.stack[-1].append((cmd["t"], cmd.get("nm", "")))
            lvl = 0 if glob else self.depth()
            for n, t in cmd.get("inner", []):
                self.names[n] = (t, lvl)
            if cmd.get("nm"):
                self.names[cmd["nm"]] = (cmd["t"], lvl)
            self.mode = "start"
        elif c == "define":
            self.defs[cmd["nm"]] = (cmd["params"], cmd["b"], 0 if glob else self.depth())
        elif c == "push":
            if self.opts["incremental"] == "true":
                for _ in range(cmd["n"]):
                    self.stack.append([])
                    self.fids.append(self.next_fid); self.next_fid += 1
                self.mode = "start"
        elif c == "pop":
            if cmd["n"] <= self.depth() and self.opts["incremental"] == "true":
                d = self.depth() - cmd["n"]
                self.stack = self.stack[:d + 1]
                self.fids = self.fids[:d + 1]
                self.names = {n: v for n, v in self.names.items() if v[1] <= d}
                self.defs = {n: v for n, v in self.defs.items() if v[2] <= d}
                self.mode = "start"
        elif c == "check-sat":
            self.mode = r if r in ("sat", "unsat") else "unknown"
    def named(self, n):
        for t, nm in self.entries():
            if nm == n:
                return t
        return None
    def top_names(self):
        return [nm for _, nm in self.entries() if nm]
    def unnamed(self):
        return [t for t, nm in self.entries() if not nm]

# ------------------------------------------------------------------ candidate models
_z3 = None
def z3mod():
    global _z3
    if _z3 is None:
        try:
            import z3
            _z3 = z3
        except Exception:
            _z3 = False
    return _z3

class Hints:
    """Candidate models for assertion sets.  A candidate is only ever *evaluated* by the
    TLA+ kernel; a wrong or missing candidate can hide a violation but cannot create one."""
    def __init__(self, tb, decls, use_z3=True):
        self.tb = tb
        self.decls = decls           # declare / declare-sort command dicts
        self.use_z3 = use_z3 and bool(z3mod())
        self.cache = {}
        self.verdicts = {}
        self.calls = 0

    def _text(self, ids, defs):
        lines = []
        for d in self.decls:
            lines.append(G.render_cmd(d, self.tb))
        for nm, (params, b, _) in defs.items():
            ret = self.tb.sort(b)
            lines.append("(define-fun %s (%s) %s %s)" % (quote_sym(nm), " ".join("(%s %s)" % (quote_sym(p), s) for p, s in params),
                                                        ret, self.tb.show(b)))
        for i in ids:
            lines.append("(assert %s)" % self.tb.show(i))
        return "\n".join(lines)

    def z3_verdict(self, ids, defs):
        self.model_for(ids, defs)
        return self.verdicts.get((tuple(sorted(set(ids))), tuple(sorted(defs))), "unknown")

    def model_for(self, ids, defs):
        """-> list of {nm,p,b} or None"""
        key = (tuple(sorted(set(ids))), tuple(sorted(defs)))
        if key in self.cache:
            return self.cache[key]
        m = None
        verdict = "unknown"
        if self.use_z3 and ids:
            z3 = z3mod()
            self.calls += 1
            try:
                s = z3.Solver()
                s.set("timeout", 3000)
                s.from_string(self._text(key[0], defs))
                r = s.check()
                verdict = str(r)
                if r == z3.sat:
                    m = self._convert(s.model())
            except Exception as ex:
                m = None
        self.cache[key] = m
        self.verdicts[key] = verdict
        return m

    def _val(self, v, sort):
        z3 = z3mod()
        tb = self.tb
        if z3.is_true(v): return tb.true()
        if z3.is_false(v): return tb.false()
        if z3.is_int_value(v):
            n = v.as_long()
            if abs(n) > MAXNUM: raise ValueError("big")
            return tb.num(n, sort if sort in (INT, REAL) else INT)
        if z3.is_rational_value(v):
            q = Fraction(v.numerator_as_long(), v.denominator_as_long())
            if abs(q.numerator) > MAXNUM or q.denominator > MAXDEN: raise ValueError("big")
            return tb.num(q, REAL)
        if z3.is_algebraic_value(v):
            raise ValueError("algebraic")
        if v.sort().kind() == z3.Z3_UNINTERPRETED_SORT and z3.is_const(v):
            return tb.uval(str(v), str(v.sort()))
        if z3.is_array(v) or v.sort().kind() == z3.Z3_ARRAY_SORT:
            return self._arr(v, sort)
        raise ValueError("unsupported value %s" % v)

    def _arr(self, v, sort):
        z3 = z3mod()
        tb = self.tb
        from smtlib import parse_arr_sort
        ie = parse_arr_sort(sort)
        if z3.is_const_array(v):
            return tb.constarr(sort, self._val(v.arg(0), ie[1]))
        if z3.is_store(v):
            return tb.app("store", [self._arr(v.arg(0), sort), self._val(v.arg(1), ie[0]), self._val(v.arg(2), ie[1])])
        raise ValueError("unsupported array value")

    def _convert(self, model):
        z3 = z3mod()
        tb = self.tb
        out = []
        byname = {d.name(): d for d in model.decls()}
        for d in self.decls:
            if d["c"] != "declare":
                continue
            nm, args, ret = d["nm"], d["args"], d["ret"]
            zd = byname.get(nm)
            try:
                if not args:
                    if zd is None:
                        b = self._default(ret)
                    else:
                        v = model.eval(zd(), model_completion=True)
                        if ret.startswith("(Array"):
                            v = self._unfold_array(model, v)
                        b = self._val(v, ret)
                    out.append({"nm": nm, "p": [], "b": b})
                else:
                    params = ["q!%d" % i for i in range(len(args))]
                    if zd is None:
                        body = self._default(ret)
                    else:
                        fi = model[zd]
                        body = self._val(fi.else_value(), ret)
                        for ent in reversed(fi.as_list()[:-1]):
                            conds = [tb.app("=", [tb.var(p, s), self._val(a, s)]) for p, s, a in zip(params, args, ent[:-1])]
                            c = conds[0] if len(conds) == 1 else tb.app("and", conds)
                            body = tb.app("ite", [c, self._val(ent[-1], ret), body])
                    out.append({"nm": nm, "p": params, "b": body})
            except Exception:
                return None
        return out

    def _unfold_array(self, model, v):
        z3 = z3mod()
        # (_ as-array f) -> stores over a constant array
        if z3.is_as_array(v):
            f = z3.get_as_array_func(v)
            fi = model[f]
            arr = z3.K(v.sort().domain(), fi.else_value())
            for ent in fi.as_list()[:-1]:
                arr = z3.Store(arr, ent[0], ent[1])
            return arr
        return v

    def _default(self, sort):
        tb = self.tb
        if sort == BOOL: return tb.false()
        if sort == INT: return tb.num(0, INT)
        if sort == REAL: return tb.num(0, REAL)
        if sort.startswith("(Array"):
            from smtlib import parse_arr_sort
            return tb.constarr(sort, self._default(parse_arr_sort(sort)[1]))
        return tb.uval(sort + "!val!0", sort)

def model_small(tb, m):
    for d in m:
        for j in tb.subterms(d["b"]):
            r = tb.rec(j)
            if r["k"] == "n" and (abs(r["n"]) > MAXNUM or r["d"] > MAXDEN):
                return False
    return True

def complete_model(tb, m, decls):
    """add default definitions for declared symbols a printed model omits? No: a missing
    definition is a C03 matter; candidates from other runs are used as they are."""
    return m

# ------------------------------------------------------------------ grid for the kernel's own search
def make_dom(tb, g, limit=3000):
    """per nullary declared symbol: the values the kernel's grid search may try"""
    dom = []
    size = 1
    ent = []
    for d in g.decls:
        if d["c"] != "declare" or d["args"]:
            continue
        s = d["ret"]
        if s == BOOL:
            vals = [tb.true(), tb.false()]
        elif s == INT:
            if d["nm"] in g.boxes:
                lo, hi = g.boxes[d["nm"]]
                vals = [tb.num(v, INT) for v in range(lo, hi + 1)]
            else:
                vals = [tb.num(v, INT) for v in (0, 1, -1, 2, -2, 3, -3)]
        elif s == REAL:
            vals = [tb.num(v, REAL) for v in (0, 1, -1, Fraction(1, 2), 2, -2, Fraction(-1, 2))]
        elif s.startswith("(Array"):
            continue
        else:
            vals = [tb.uval("@g%d" % i, s) for i in range(3)]
        ent.append([d["nm"], s, vals])
        size *= len(vals)
    # shrink unboxed numeric domains until the grid is affordable
    while size > limit:
        big = [e for e in ent if e[1] in (INT, REAL) and len(e[2]) > 3 and e[0] not in g.boxes]
        if not big:
            big = [e for e in ent if e[1] not in (BOOL, INT, REAL) and len(e[2]) > 2]
        if not big:
            break
        e = max(big, key=lambda e: len(e[2]))
        size //= len(e[2]); e[2] = e[2][:-2] if len(e[2]) > 4 else e[2][:-1]; size *= len(e[2])
    if size > limit * 4:
        return []
    return [{"nm": n, "s": s, "vals": v} for n, s, v in ent]

# ------------------------------------------------------------------ trace building
def outhash(s):
    return hashlib.sha1(s.encode()).hexdigest()[:16]

def strip_markers(out):
    return "\n".join(l for l in out.split("\n") if not MARK.match(l.strip()))

class Family:
    """One term table, several runs."""
    def __init__(self, g):
        self.g = g
        self.tb = g.tb
        self.runs = []       # dicts: sid cfg kind io base intl cmds res(run_opensmt result) timeout
        self.hints = Hints(g.tb, g.decls)
        self.models = {}     # frozenset(active ids) -> list of candidate models found in earlier runs
        self.stats = {"checks": 0, "kernel_calls": 0}

    def add_run(self, sid, cfg, kind, cmds, io="file", base=None, intl=None, timeout=20, chunks=None,
                det=True, binary=None, env=None, extra_args=(), text=None, cwd=None, wellformed=True):
        if text is None:
            text = G.render_script(cmds, self.tb)
        os.makedirs(SCRATCH, exist_ok=True)
        fd, hpath = tempfile.mkstemp(suffix=".hook", dir=SCRATCH)
        os.close(fd)
        env2 = dict(env or {})
        env2["OPENSMT_VERIF_TRACE"] = hpath
        res = run_opensmt(text, io=io, timeout=timeout, chunks=chunks, binary=binary, env=env2, extra_args=extra_args, cwd=cwd)
        dup = False
        hook_gives = []
        try:
            xs = []
            nxs, pend_names = [], {}
            main_ms = None
            hook_gives = []      # ("give", frame id, term object) and ("check",) in order
            with open(hpath) as hf:
                for line in hf:
                    if line.startswith('{"e":"insert"'):
                        try:
                            o = json.loads(line)
                            # only the instance that executes the script (the first one seen); core minimisation
                            # inserts the same formulas into helper instances
                            if main_ms is None:
                                main_ms = o.get("ms")
                            if o.get("ms") == main_ms:
                                xs.append(o["x"])
                                nxs.append(pend_names); pend_names = {}
                        except Exception:
                            pass
                    elif line.startswith('{"e":"name"'):
                        # names entered into the solver's table since the last insertion (they belong to the assert
                        # command that is being read): name -> the solver's identity of the named term
                        try:
                            o = json.loads(line)
                            if main_ms is None:
                                main_ms = o.get("ms")
                            if o.get("ms") == main_ms and o.get("ok"):
                                pend_names[o["n"]] = o["x"]
                        except Exception:
                            pass
                    elif line.startswith('{"e":"give"') and len(hook_gives) < 400:
                        try:
                            o = json.loads(line)
                            hook_gives.append(("give", o["id"], o["root"]))
                        except Exception:
                            pass
                    elif line.startswith('{"e":"check"'):
                        hook_gives.append(("check",))
            # the same term (after the constructors' simplification) inserted twice in this run
            dup = len(set(xs)) != len(xs)
        except Exception:
            pass
        finally:
            try:
                os.unlink(hpath)
            except OSError:
                pass
        if intl is None:
            intl = self.g.num == INT
        run = {"sid": sid, "cfg": cfg, "kind": kind, "io": io, "base": base or sid, "intl": bool(intl),
               "cmds": cmds, "res": res, "text": text, "det": det, "wellformed": wellformed, "dup": dup, "hook_gives": hook_gives,
               "xs": xs if 'xs' in dir() else [], "nxs": nxs if 'nxs' in dir() else []}
        self.runs.append(run)
        return run

    # -- events
    def events(self, mon=True, with_fam=True):
        tb = self.tb
        evs = []
        body = []
        for run in self.runs:
            body += self.run_events(run, mon)
        tb.true(); tb.false()
        dom = make_dom(tb, self.g)
        if with_fam:
            evs.append({"e": "Fam", "tt": tb.recs, "dom": dom})
        return evs + body

    def run_events(self, run, mon=True):
        tb, g = self.tb, self.g
        cmds = run["cmds"]
        res = run["res"]
        segs, done, tail = split_output(res["out"], len(cmds))
        evs = [{"e": "Run", "sid": run["sid"], "cfg": run["cfg"], "kind": run["kind"], "io": run["io"],
                "base": run["base"], "intl": run["intl"], "dup": bool(run.get("dup", False)), "logic": G.logic_name(g.logic)}]
        if not run.get("wellformed", True):
            out = res["out"]
            diag = ("(error" in out) or ("syntax error" in out.lower()) or ("Syntax error" in out)
            evs.append({"e": "Cmd", "c": "bad", "r": "error" if diag else "ok", "ci": 0, "must": "reject", "i": 1, "hasNamed": False})
            evs.append({"e": "Exit", "status": res["status"], "sig": res["sig"], "san": bool(res["san"]), "to": bool(res["to"]),
                        "pending": bool(run.get("has_check", False)), "outh": outhash(out), "nerr": 1 if diag else 0,
                        "synerr": True, "det": False, "site": res.get("site", "")})
            return evs
        mir = Mirror()
        sig = Signature()
        sig.sorts = set(g.sig.sorts)
        nerr = 0
        synerr = False
        pending_check = False
        run["answers"] = []
        last_model = None
        for k, cmd in enumerate(cmds):
            reached = k < done
            seg = segs[k]
            if not reached:
                # the process ended (exit, crash, time-out) before finishing this command
                if cmd["c"] == "exit" and not res["to"] and res["sig"] == 0:
                    evs.append(self._cmd_ev(cmd, "ok", k))
                    break
                if res["to"] and k == done:
                    if cmd["c"] == "check-sat":
                        pending_check = True
                        ev = self._cmd_ev(cmd, "timeout", k)
                        ev.update({"h": [], "mon": False})
                        evs.append(ev)
                break
            lines = [x for x in seg.split("\n") if x.strip()]
            r = "ok"
            if any(x.startswith("(error") for x in lines):
                r = "error"; nerr += 1
            if "syntax error" in seg:
                synerr = True
            ev = self._cmd_ev(cmd, r, k)
            c = cmd["c"]
            if c in ("get-model", "get-value", "get-assignment", "get-unsat-core", "get-interpolants", "get-proof"):
                ev["rh"] = outhash(" ".join(seg.split()))      # what was printed, for the clean / with-rejected comparison
            if r != "error":
                try:
                    self._fill(ev, cmd, seg, lines, mir, sig, mon, run)
                except Exception as ex:   # harness problem: never a violation
                    ev["c"] = "other"; ev["harness_error"] = repr(ex)
            if ev.get("r") == "error" and r != "error":
                nerr += 0
            evs.append(ev)
            r = ev["r"]
            mir.step(cmd, r)
            if r != "error" and c == "declare":
                sig.funs[cmd["nm"]] = (tuple(cmd["args"]), cmd["ret"])
            if r != "error" and c == "declare-sort":
                sig.sorts.add(cmd["nm"])
        # the solver's own identity of every accepted assertion (insertFormula hook), when the two sequences line up
        acc = [e for e in evs if e.get("e") == "Cmd" and e.get("c") == "assert" and e.get("r") == "ok"]
        raw_asserts = any(c2["c"] == "raw" and "(assert" in c2.get("text", "") for c2 in cmds)
        xs_run = run.get("xs") or []
        if not raw_asserts and len(acc) == len(xs_run):
            nxs_run = run.get("nxs") or []
            for i, (e, x) in enumerate(zip(acc, xs_run)):
                e["x"] = x
                # identities of the named sub-terms (name hook), parallel to "inner"; -1 = not observed
                nm2x = nxs_run[i] if i < len(nxs_run) else {}
                e["ix"] = [nm2x.get(r["nm"], -1) for r in e.get("inner", [])]
        evs.append({"e": "Exit", "status": res["status"], "sig": res["sig"], "san": bool(res["san"]), "to": bool(res["to"]),
                    "pending": pending_check, "outh": outhash(strip_markers(res["out"])),
                    "nerr": nerr + (1 if ("syntax error" in res["out"] or "Syntax error" in res["out"]) else 0),
                    "synerr": synerr or ("syntax error" in tail), "det": bool(run.get("det", True)), "site": res.get("site", "")})
        return evs

    def _cmd_ev(self, cmd, r, k):
        ev = {"e": "Cmd", "c": cmd["c"], "r": r, "rh": "", "ci": cmd.get("ci", 0), "must": cmd.get("must", ""), "i": k + 1,
              "hasNamed": bool(cmd.get("nm") or cmd.get("inner") or ":named" in cmd.get("text", ""))}
        c = cmd["c"]
        if c == "set-option":
            ev.update({"k": cmd["k"], "v": cmd["v"]})
        elif c == "define":
            ev.update({"nm": cmd["nm"], "p": [p for p, _ in cmd["params"]], "b": cmd["b"], "wf": cmd.get("wf", True)})
        elif c == "assert":
            ev.update({"t": cmd["t"], "nm": cmd.get("nm", ""), "wf": cmd.get("wf", True),
                       "inner": [{"nm": n, "t": t} for n, t in cmd.get("inner", [])]})
        elif c in ("push", "pop"):
            ev.update({"n": cmd["n"]})
        elif c == "get-interpolants":
            ev.update({"groups": cmd["groups"]})
        elif c in ("raw", "other"):
            ev["c"] = "other"
        return ev

    def _small(self, ids):
        return self.tb.max_abs(ids) <= MAXNUM

    def _hints_for(self, ids, defs, extra=()):
        """candidate models for the set ids: earlier models of this family, then z3"""
        out = []
        key = frozenset(ids)
        for m in self.models.get(key, [])[:2]:
            out.append(m)
        for m in extra:
            if m is not None:
                out.append(m)
        if not out:
            m = self.hints.model_for(list(ids), defs)
            if m is not None and model_small(self.tb, m):
                out.append(m)
        return out

    def _fill(self, ev, cmd, seg, lines, mir, sig, mon, run):
        tb = self.tb
        c = cmd["c"]
        small = True
        if c == "check-sat":
            first = lines[0].strip() if lines else ""
            r = first if first in ("sat", "unsat", "unknown") else ("timeout" if run["res"]["to"] else "unknown")
            ev["r"] = r
            act = mir.active()
            domon = mon and cmd.get("mon", True) and self._small(act) and self._defs_small(mir)
            ev["mon"] = bool(domon)
            ev["h"] = ([[]] if cmd.get("empty_hint") else self._hints_for(act, mir.defs)) if domon else []
            run["answers"].append(r)
            self.stats["checks"] += 1
        elif c == "get-model":
            ev["r"] = "val"
            try:
                sx = read_all(seg)
                m = parse_model(sx[0] if sx else [], tb, sig)
                ev["m"] = m; ev["pok"] = True
                ok = model_small(tb, m) and self._small(mir.active()) and self._defs_small(mir)
                ev["mon"] = bool(mon and ok)
                if ok:
                    self.models.setdefault(frozenset(mir.active()), []).append(m)
                    run["last_model"] = m
            except SmtError as ex:
                ev["m"] = []; ev["pok"] = False; ev["mon"] = False; ev["why"] = str(ex)
        elif c == "get-value":
            ev["r"] = "val"
            ts = cmd["ts"]
            try:
                sx = read_all(seg)
                pairs = sx[0]
                if not isinstance(pairs, list) or len(pairs) != len(ts):
                    raise SortError("get-value answered %d pairs for %d terms" % (len(pairs), len(ts)))
                vs = []
                for t, pr in zip(ts, pairs):
                    if not (isinstance(pr, list) and len(pr) == 2):
                        raise SortError("bad value pair")
                    v = parse_term(pr[1], tb, Signature_with_sorts(sig), {}, tb.sort(t))
                    vs.append(v)
                    # the echoed term must read back as the requested term
                    try:
                        echo = parse_term(pr[0], tb, sig_with_defs(sig, mir, tb), {}, None)
                    except SmtError as ex:
                        raise SortError("get-value echoes a term that does not read back: %s" % ex)
                    if echo != t and cmd.get("strict_echo", True):
                        raise SortError("get-value echoes another term than the requested one")
                ev.update({"ts": ts, "vs": vs, "pok": True,
                           "mon": bool(mon and self._small(ts + vs + mir.active()))})
            except SmtError as ex:
                ev.update({"ts": ts, "vs": [], "pok": False, "mon": False, "why": str(ex)})
        elif c == "get-assignment":
            ev["r"] = "val"
            sx = read_all(seg)
            asg = []
            for pr in (sx[0] if sx else []):
                if isinstance(pr, list) and len(pr) == 2 and is_sym(pr[0]) and is_sym(pr[1]):
                    asg.append({"nm": pr[0].val, "v": pr[1].val})
            ev.update({"as": asg, "mon": bool(mon)})
        elif c == "get-unsat-core":
            ev["r"] = "val"
            full = mir.opts.get("fullcores") == "true" or cmd.get("full", False)
            ev["full"] = bool(full)
            ev.update({"core": [], "fs": [], "fx": [], "h": [], "hm": [], "pok": True, "mon": False})
            try:
                sx = read_all(seg)
                items = sx[0] if sx else []
                if not isinstance(items, list):
                    raise SortError("core is not a list")
                if full:
                    fs = [parse_term(x, tb, sig_with_defs(sig, mir, tb), {}, BOOL) for x in items]
                    ev["fs"] = fs
                    act = mir.active()
                    if mir.mode == "unsat" and self._small(fs + act) and self._defs_small(mir) and len(fs) * len(act) <= 60:
                        ev["mon"] = bool(mon)
                        ev["h"] = self._hints_for(fs, mir.defs)
                        ev["hm"] = [[] for _ in fs]
                        for f in fs:
                            row = []
                            for a in dict.fromkeys(act):
                                x = tb.app("xor", [f, a])
                                row.append({"a": a, "x": x, "h": [] if f == a else self._hints_for([x], mir.defs)})
                            ev["fx"].append(row)
                else:
                    core = []
                    for x in items:
                        if not is_sym(x):
                            raise SortError("core member is not a symbol")
                        core.append(x.val)
                    ev["core"] = core
                    if mir.mode == "unsat" and all(n in mir.top_names() for n in core):
                        ids = mir.unnamed() + [mir.named(n) for n in core]
                        ok = self._small(ids) and self._defs_small(mir)
                        ev["mon"] = bool(mon and ok)
                        if ev["mon"]:
                            ev["h"] = self._hints_for(ids, mir.defs)
                            ev["hm"] = [[] for _ in core]
            except SmtError as ex:
                ev["pok"] = False; ev["why"] = str(ex)
        elif c == "get-interpolants":
            ev["r"] = "val"
            groups = cmd["groups"]
            ev.update({"itps": [], "nitps": [], "hA": [], "hB": [], "hP": [], "pok": True, "mon": False})
            try:
                sx = read_all(seg)
                items = sx[0] if sx else []
                itps = [parse_term(x, tb, sig_with_defs(sig, mir, tb), {}, BOOL) for x in items]
                for t in itps:
                    if tb.sort(t) != BOOL:
                        raise SortError("interpolant is not Boolean")
                ev["itps"] = itps
                ev["nitps"] = [tb.app("not", [t]) for t in itps]
                act0 = set(mir.active())
                legal = all(n in mir.names and mir.names[n][0] in act0 for g in groups for n in g)
                if legal and mir.mode == "unsat" and len(itps) == len(groups) - 1:
                    act = mir.active()
                    ok = self._small(act + itps) and self._defs_small(mir)
                    ev["mon"] = bool(mon and ok)
                    if ev["mon"]:
                        A = []
                        for j, t in enumerate(itps):
                            A = A + [mir.names[n][0] for n in groups[j]]
                            B = [x for x in act if x not in A]
                            ev["hA"].append(self._hints_for(A + [ev["nitps"][j]], mir.defs))
                            ev["hB"].append(self._hints_for(B + [t], mir.defs))
                            if j + 1 < len(itps):
                                Gn = [mir.names[n][0] for n in groups[j + 1]]
                                ev["hP"].append(self._hints_for([t, ev["nitps"][j + 1]] + Gn, mir.defs))
                            else:
                                ev["hP"].append([])
            except SmtError as ex:
                ev["pok"] = False; ev["why"] = str(ex)
        elif c == "get-proof":
            ev["r"] = "val"
            ev.update({"nodes": [], "root": "", "hl": [], "prem": [], "pok": True, "mon": False})
            try:
                psig = sig_with_defs(sig, mir, tb)
                given = []
                nchecks = sum(1 for a in run.get("answers", []))
                seen_checks = 0
                for h in run.get("hook_gives", []):
                    if h[0] == "check":
                        seen_checks += 1
                        if seen_checks >= nchecks:
                            break
                        continue
                    _, fid, obj = h
                    for nm, args, ret in obj["d"]:
                        if nm not in psig.funs:
                            psig.funs[nm] = (tuple(args), ret)     # auxiliary symbols of the preprocessing
                    if fid in mir.fids:
                        given.append(parse_term(read_all(obj["t"])[0], tb, psig, {}, BOOL))
                nodes, root = parse_proof(seg, tb, psig)
                ev["nodes"] = nodes; ev["root"] = root
                act = given if given else mir.active()
                ev["prem"] = list(dict.fromkeys(act))
                afids = set(mir.fids)
                ok = mir.mode == "unsat" and len(nodes) <= 60 and self._small(act) and self._defs_small(mir)
                ev["mon"] = bool(mon and ok)
                for n in nodes:
                    h = []
                    if ev["mon"] and n["kind"] == "leaf":
                        lits = n["lits"]
                        activation = len(lits) == 1 and lits[0]["fid"] >= 0 and not lits[0]["s"]
                        popped_guard = any(x["fid"] >= 0 and x["s"] and x["fid"] not in afids for x in lits)
                        if not activation and not popped_guard:
                            eff = [x for x in lits if not (x["fid"] >= 0 and x["s"] and x["fid"] in afids)]
                            neg = [x["nt"] if x["s"] else x["t"] for x in eff]
                            if self._small(neg):
                                h = self._hints_for(list(act) + neg, mir.defs)
                    ev["hl"].append(h)
                run["proofs"] = run.get("proofs", 0) + 1
            except SmtError as ex:
                ev["pok"] = False; ev["why"] = str(ex)
        elif c in ("echo", "get-info", "get-option", "exit", "set-info", "declare", "declare-sort",
                   "set-logic", "set-option", "define", "assert", "push", "pop"):
            pass

    def _defs_small(self, mir):
        return self.tb.max_abs([b for _, b, _ in mir.defs.values()]) <= MAXNUM if mir.defs else True

PROOF_LET = re.compile(r"^\(let \((cls_\d+) (.*)$")
FRAME = re.compile(r"^\.frame(\d+)$")

def parse_proof(text, tb, sig):
    """-> (nodes, root name) in the shape spec/Proof.tla expects"""
    sig = sig.copy()
    lines = [l.rstrip() for l in text.split("\n") if l.strip()]
    if not lines or not lines[0].startswith("(proof"):
        raise SortError("proof does not start with (proof")
    nodes = []
    root = None
    def lit(x):
        neg = isinstance(x, list) and len(x) == 2 and is_sym(x[0], "not")
        a = x[1] if neg else x
        fid = -1
        if is_sym(a):
            m = FRAME.match(a.val)
            if m:
                fid = int(m.group(1))
                sig.funs[a.val] = ((), BOOL)
        t = parse_term(a, tb, sig, {}, BOOL)
        if tb.sort(t) != BOOL:
            raise SortError("proof literal is not Boolean")
        return {"t": t, "nt": tb.app("not", [t]), "s": not neg, "fid": fid}
    def atom(x):
        if is_sym(x) and FRAME.match(x.val):
            sig.funs[x.val] = ((), BOOL)
        return parse_term(x, tb, sig, {}, BOOL)
    def chain(x):
        """(res (res A B p) C q) -> first, [(B,p),(C,q)]"""
        if is_sym(x):
            return x.val, []
        if not (isinstance(x, list) and len(x) == 4 and is_sym(x[0], "res") and is_sym(x[2])):
            raise SortError("bad resolution step " + sexpr_str(x)[:80])
        first, steps = chain(x[1])
        return first, steps + [{"c": x[2].val, "p": atom(x[3])}]
    i = 1
    while i < len(lines):
        ln = lines[i]
        m = PROOF_LET.match(ln)
        if m:
            name, rest = m.group(1), m.group(2)
            if rest.startswith("(res "):
                sx = read_all(rest[:-1] if rest.endswith("))") else rest)
                first, steps = chain(sx[0])
                nodes.append({"id": name, "kind": "res", "lits": [], "first": first, "steps": steps})
            elif rest.startswith("(or ") and rest.endswith(" ))"):
                sx = read_all("(" + rest[4:-3] + ")")
                nodes.append({"id": name, "kind": "leaf", "lits": [lit(x) for x in sx[0]], "first": "", "steps": []})
            elif rest.strip() == ")":
                nodes.append({"id": name, "kind": "leaf", "lits": [], "first": "", "steps": []})
            elif rest.endswith(" )"):
                sx = read_all(rest[:-2])
                if len(sx) != 1:
                    raise SortError("bad unit clause")
                nodes.append({"id": name, "kind": "leaf", "lits": [lit(sx[0])], "first": "", "steps": []})
            else:
                raise SortError("bad proof line " + ln[:80])
            i += 1
            continue
        if re.match(r"^cls_\d+$", ln.strip()):
            root = ln.strip()
            break
        raise SortError("bad proof line " + ln[:80])
    if root is None:
        raise SortError("proof has no final clause reference")
    return nodes, root

def Signature_with_sorts(sig):
    s = Signature()
    s.sorts = set(sig.sorts)
    return s

def sig_with_defs(sig, mir, tb=None):
    s = sig.copy()
    for nm, (params, b, _) in mir.defs.items():
        s.defs[nm] = (params, b, tb.sort(b) if tb else None)
    return s

def write_trace(path, events):
    with open(path, "w") as f:
        for e in events:
            f.write(json.dumps(e, separators=(",", ":")) + "\n")
