"""Executions with the guarded hooks on: conversion of the hook trace into events for
spec/trace/Engine_Trace.tla (C11 C12 C13 C26)."""
import os, json, random, tempfile
from fractions import Fraction
import gen as G
import core as C
import builders as B
from smtlib import (Table, Signature, read_all, parse_term, SmtError, BOOL, INT, REAL)

def run_hooked(text, timeout=20, binary=None, io="file"):
    os.makedirs(C.SCRATCH, exist_ok=True)
    fd, path = tempfile.mkstemp(suffix=".ndjson", dir=C.SCRATCH)
    os.close(fd)
    try:
        res = C.run_opensmt(text, io=io, timeout=timeout, binary=binary, env={"OPENSMT_VERIF_TRACE": path})
        evs = []
        with open(path) as f:
            for line in f:
                line = line.strip()
                if line:
                    try:
                        evs.append(json.loads(line))
                    except Exception:
                        evs.append({"e": "garbled"})
    finally:
        os.unlink(path)
    return res, evs

MAX_EVENTS = 1500

class TermReader:
    """parses the {"t": text, "d": declarations} objects of the hooks into one table"""
    def __init__(self, tb):
        self.tb = tb
        self.sig = Signature()
        self.decls = {}       # name -> (args, ret)
        self.cache = {}
    def _sort_names(self, s):
        for tok in s.replace("(", " ").replace(")", " ").split():
            if tok not in ("Array", BOOL, INT, REAL):
                self.sig.sorts.add(tok)
    def read(self, obj, want=None):
        key = (obj["t"], want)
        if key in self.cache:
            return self.cache[key]
        for nm, args, ret in obj["d"]:
            for s in list(args) + [ret]:
                self._sort_names(s)
            self.sig.funs[nm] = (tuple(args), ret)
            self.decls[nm] = (tuple(args), ret)
        sx = read_all(obj["t"])
        t = parse_term(sx[0], self.tb, self.sig, {}, want)
        self.cache[key] = t
        return t
    def decl_cmds(self):
        out = [{"c": "declare-sort", "nm": s} for s in sorted(self.sig.sorts)]
        for nm, (args, ret) in sorted(self.decls.items()):
            out.append({"c": "declare", "nm": nm, "args": list(args), "ret": ret})
        return out

def parse_q(s):
    q = Fraction(s)
    return q

def convert(tb, hook_events, sid, cfg, kind, stats, mon=True):
    """-> Engine_Trace events (without the Fam line)"""
    rd = TermReader(tb)
    out = [{"e": "Run", "sid": sid, "cfg": cfg, "kind": kind}]
    hints = None
    def get_hints():
        nonlocal hints
        h = C.Hints(tb, rd.decl_cmds())
        return h
    cur_idx = None
    pending_frame = None      # (idx, asserted ids)
    gives = {}                # frame id -> roots (accumulated over re-processing of the frame)
    inserted = {}             # frame id -> formulas as asserted (before ITE elimination), None where unreadable
    main_ms = [None]          # the MainSolver instance that executes the script
    idx2id = {}
    def flush_frame():
        nonlocal pending_frame
        if pending_frame is None:
            return
        idx, asserted = pending_frame
        pending_frame = None
        given = []
        for j in sorted(idx2id):
            if j <= idx:
                given += gives.get(idx2id[j], [])
        q = []
        ok = mon and tb.max_abs(asserted + given) <= C.MAXNUM and len(asserted) <= 12
        if ok and given:
            H = get_hints()
            for a in asserted:
                na = tb.app("not", [a])
                m = H.model_for(given + [na], {})
                q.append({"a": a, "na": na, "h": [m] if (m is not None and C.model_small(tb, m)) else []})
                stats["c13_queries"] = stats.get("c13_queries", 0) + 1
                if m is not None:
                    stats["c13_candidates"] = stats.get("c13_candidates", 0) + 1
        out.append({"e": "fend", "idx": idx, "q": q, "mon": bool(ok and given)})
    if len(hook_events) > MAX_EVENTS:
        stats["truncated_runs"] = stats.get("truncated_runs", 0) + 1
        hook_events = hook_events[:MAX_EVENTS]
    for ev in hook_events:
        e = ev.get("e")
        try:
            if e == "cl":
                k = ev["kind"]
                if k == "input":
                    out.append({"e": "cl", "kind": "input", "lits": ev["lits"], "site": ""})
                else:
                    out.append({"e": "cl", "kind": k, "lits": ev["lits"], "site": ev.get("site", "elim")})
                    stats["learnt"] = stats.get("learnt", 0) + 1
            elif e in ("tcl", "rootded"):
                if e == "rootded":
                    # the hook calls getReason, which emitted a tcl(reason) event just before; this one
                    # only marks it as the justification of a root-level fact
                    continue
                atoms = {a["v"]: rd.read(a["a"]) for a in ev["atoms"]}
                lits = [x for x in ev["lits"] if x != 0]
                neg = []
                for x in lits:
                    a = atoms[abs(x)]
                    neg.append(tb.app("not", [a]) if x > 0 else a)
                ok = mon and tb.max_abs(neg) <= C.MAXNUM and len(neg) <= 14
                h = []
                if ok:
                    m = get_hints().model_for(neg, {})
                    if m is not None and C.model_small(tb, m):
                        h = [m]
                        stats["c11_candidates"] = stats.get("c11_candidates", 0) + 1
                stats["tcl"] = stats.get("tcl", 0) + 1
                stats["tcl_" + ev["kind"]] = stats.get("tcl_" + ev["kind"], 0) + 1
                out.append({"e": "tcl", "kind": ev["kind"], "lits": lits, "neg": neg, "h": h, "mon": bool(ok)})
            elif e == "farkas":
                lits = []
                for x in ev["lits"]:
                    t = rd.read(x["a"])
                    r = tb.rec(t)
                    isint = bool(r["a"]) and tb.sort(r["a"][-1]) == INT
                    lits.append({"t": t, "s": bool(x["s"]), "int": isint})
                coefs = [parse_q(c) for c in ev["coefs"]]
                ok = mon and all(abs(c.numerator) <= 2000 and c.denominator <= 2000 for c in coefs) and \
                     tb.max_abs([x["t"] for x in lits]) <= 2000 and len(lits) <= 12
                stats["farkas"] = stats.get("farkas", 0) + 1
                out.append({"e": "farkas", "lits": lits, "coefs": [{"n": c.numerator, "d": c.denominator} for c in coefs],
                            "mon": bool(ok)})
            elif e == "insert":
                if main_ms[0] is None:
                    main_ms[0] = ev.get("ms")
                if "t" in ev and ev.get("ms") == main_ms[0]:
                    try:
                        inserted.setdefault(ev["fid"], []).append(rd.read(ev["t"]))
                    except SmtError:
                        inserted.setdefault(ev["fid"], []).append(None)
                        raise
            elif e == "frame":
                flush_frame()
                cur_idx = ev["idx"]
                asserted = [rd.read(a) for a in ev["asserted"]]
                orig = inserted.get(ev["id"], [])
                if len(orig) == len(asserted) and None not in orig:
                    # the frame's formulas as the user asserted them: ITE elimination is inside the checked window
                    asserted = list(orig)
                    stats["frames_orig"] = stats.get("frames_orig", 0) + 1
                for j in [j for j in idx2id if j > cur_idx]:
                    del idx2id[j]
                idx2id[cur_idx] = ev["id"]
                pending_frame = (cur_idx, asserted)
                out.append({"e": "frame", "idx": cur_idx, "id": ev["id"], "asserted": asserted})
                stats["frames"] = stats.get("frames", 0) + 1
            elif e == "give":
                root = rd.read(ev["root"])
                gives.setdefault(ev["id"], []).append(root)
                out.append({"e": "give", "id": ev["id"], "root": root})
            elif e == "check":
                flush_frame()
                c = {"e": "check", "ret": ev["ret"], "all": [], "h": [], "mon": False}
                if mon and ev["ret"] == "unsat" and not ev.get("early"):
                    # equisatisfiability, the other direction: the engine refuted what it was given although the
                    # assertions of the active frames (as the user wrote them) have a model
                    lvl = ev.get("level", max(idx2id) if idx2id else 0)
                    act = [t for j in sorted(idx2id) if j <= lvl for t in inserted.get(idx2id[j], []) if t is not None]
                    complete = all(len(inserted.get(idx2id[j], [])) > 0 or True for j in idx2id)
                    if act and complete and tb.max_abs(act) <= C.MAXNUM and len(act) <= 14:
                        m = get_hints().model_for(act, {})
                        if m is not None and C.model_small(tb, m):
                            c.update({"all": act, "h": [m], "mon": True})
                            stats["c13_unsat_candidates"] = stats.get("c13_unsat_candidates", 0) + 1
                out.append(c)
        except SmtError as ex:
            stats["unreadable_terms"] = stats.get("unreadable_terms", 0) + 1
            stats.setdefault("unreadable_samples", []).append(str(ex)[:200])
    flush_frame()
    return out

def b_engine(job):
    rng = random.Random(job["seed"])
    g = G.Gen(rng, job["logic"], nnum=job.get("nnum", 3), maxconst=job.get("maxconst", 4))
    mode = job.get("mode", "random")
    if mode == "cnf":
        # random k-CNF near the threshold over a pool of Boolean and theory atoms: forces conflicts
        n = job.get("n_atoms", 8)
        atoms = g.atom_pool(n)
        m = int(job.get("ratio", 4.0) * n)
        body = [{"c": "assert", "t": b, "nm": "", "inner": []} for b in g.box_asserts()]
        cls = []
        for _ in range(m):
            k = rng.choice([2, 3, 3, 3])
            lits = []
            for a in rng.sample(atoms, min(k, len(atoms))):
                lits.append(g.tb.app("not", [a]) if rng.random() < 0.5 else a)
            cls.append(g.tb.app("or", lits) if len(lits) > 1 else lits[0])
        half = len(cls) // 2
        for c in cls[:half]:
            body.append({"c": "assert", "t": c, "nm": "", "inner": []})
        body.append({"c": "check-sat"})
        if job.get("histories", True) and rng.random() < 0.5:
            body.append({"c": "push", "n": 1})
        for c in cls[half:]:
            body.append({"c": "assert", "t": c, "nm": "", "inner": []})
        body.append({"c": "check-sat"})
    elif mode == "dlgraph":
        body = G.dlgraph_history(g, rng)
    elif mode == "diamond":
        body = G.diamond_history(g, rng)
    elif mode == "guarded":
        body = G.guarded_history(g, rng)
    elif mode == "unsatbiased":
        body = B.unsat_biased_body(g, rng, p_named=0.0, nested=False, n_named=job.get("n", 6), n_atoms=job.get("n_atoms", 4),
                                   histories=job.get("histories", True))
    else:
        body = G.random_history(g, rng, n_assert=job.get("n_assert", 6), fdepth=job.get("fdepth", 2), n_atoms=job.get("n_atoms", 6))
    cfgs = job.get("cfgs", ["c0"])
    haspush = any(c["c"] in ("push", "pop") for c in body)
    tb = g.tb
    events = []
    stats = {}
    texts = []
    answers = []
    nruns = 0
    for cfg in cfgs:
        if cfg == "noinc" and haspush:
            continue
        opts = []
        for c in cfg.split("+"):
            opts += B.CONFIGS[c]
        cmds = G.preamble(g, opts) + body
        text = G.render_script(cmds, tb, markers=False)
        res, hev = run_hooked(text, timeout=job.get("timeout", 6))
        evs = convert(tb, hev, "s", cfg, "main", stats)
        evs.append({"e": "Exit", "status": res["status"]})
        events += evs
        nruns += 1
        texts.append({"sid": "s", "cfg": cfg, "kind": "main", "io": "file", "text": text, "out": res["out"][:2000],
                      "status": res["status"], "sig": res["sig"]})
        answers += [x for x in res["out"].split() if x in ("sat", "unsat", "unknown")]
    tb.true(); tb.false()
    fam = [{"e": "Fam", "tt": tb.recs, "dom": []}]
    sample = {"builder": "engine", "logic": job["logic"], "seed": job["seed"], "script": texts[0]["text"][:1200] if texts else "",
              "answers": answers[:8], "stats": {k: v for k, v in stats.items() if not k.endswith("samples")}}
    want = job.get("need", "tcl")
    nontriv = stats.get(want, 0) > 0
    return {"events": fam + events, "runs": nruns, "sample": sample, "nontrivial": nontriv, "texts": texts,
            "stats": dict(stats, answers=answers)}

B.BUILDERS["engine"] = b_engine

# ---------------------------------------------------------------- MainSolver_Trace (frame machine)
def convert_frames(tb, hook_events, sid, cfg, kind, stats):
    """hook events -> events of spec/trace/MainSolver_Trace.tla"""
    rd = TermReader(tb)
    out = [{"e": "Run", "sid": sid, "cfg": cfg, "kind": kind}]
    stack = [[]]           # mirror of the assertion stack (term ids), only to ask for candidate models
    pending_solved = False
    nframe_since_check = 0
    for ev in hook_events[:MAX_EVENTS * 4]:
        e = ev.get("e")
        try:
            if e == "push":
                stack.append([]); out.append({"e": "push"})
            elif e == "pop":
                if len(stack) > 1: stack.pop()
                out.append({"e": "pop"})
            elif e == "insert" and "t" in ev:
                t = rd.read(ev["t"])
                stack[-1].append(t)
                out.append({"e": "insert", "level": ev["level"], "fid": ev["fid"], "t": t})
            elif e == "frame":
                out.append({"e": "frame", "idx": ev["idx"], "id": ev["id"]})
                nframe_since_check += 1
                stats["frames"] = stats.get("frames", 0) + 1
            elif e == "give":
                try:
                    root = rd.read(ev["root"])
                except SmtError:
                    root = 0          # opaque for the frame machine
                out.append({"e": "give", "id": ev["id"], "root": root})
            elif e == "check":
                c = {"e": "check", "ret": ev["ret"], "early": bool(ev.get("early")), "solved": bool(ev.get("solved", False)),
                     "ok": bool(ev.get("ok", True)), "level": ev["level"], "cf": ev.get("conflictFrame", 0), "h": []}
                stats["checks"] = stats.get("checks", 0) + 1
                if c["early"]:
                    stats["early"] = stats.get("early", 0) + 1
                if ev["ret"] == "unsat" and not c["early"]:
                    # frames k.. get flagged: candidate model of the assertions of frames 0..k
                    k = c["cf"] if c["solved"] else None
                    if k is None:
                        # simplifyFormulas stopped at the last frame it reported
                        k = next((x["idx"] for x in reversed(out) if x.get("e") == "frame"), 0)
                    if k < len(stack) - 1:
                        stats["flag_below_top"] = stats.get("flag_below_top", 0) + 1
                    pre = [t for fr in stack[:k + 1] for t in fr]
                    if pre and tb.max_abs(pre) <= C.MAXNUM and len(pre) <= 14:
                        m = C.Hints(tb, rd.decl_cmds()).model_for(pre, {})
                        if m is not None and C.model_small(tb, m):
                            c["h"] = [m]
                            stats["flag_candidates"] = stats.get("flag_candidates", 0) + 1
                out.append(c)
                nframe_since_check = 0
        except SmtError as ex:
            stats["unreadable_terms"] = stats.get("unreadable_terms", 0) + 1
            return None
    return out

def b_frames(job):
    """C04 (frame machine): incremental histories run with the hooks on, replayed through MainSolver.tla"""
    rng = random.Random(job["seed"])
    g = G.Gen(rng, job["logic"], nnum=job.get("nnum", 3), maxconst=job.get("maxconst", 4))
    mode = job.get("mode", "random")
    if mode == "cnf":
        body = B.cnf_history(g, rng, n_atoms=job.get("n_atoms", 6), levels=job.get("levels", 5))
    elif mode == "unsatbiased":
        body = B.unsat_biased_body(g, rng, p_named=0.0, nested=False, n_named=job.get("n", 6), n_atoms=job.get("n_atoms", 4))
    else:
        body = G.random_history(g, rng, n_assert=job.get("n_assert", 7), fdepth=2, n_atoms=job.get("n_atoms", 5), min_checks=3)
    tb = g.tb
    events, texts, answers, stats, nruns = [], [], [], {}, 0
    for cfg in job.get("cfgs", ["c0"]):
        opts = []
        for c in cfg.split("+"):
            opts += B.CONFIGS[c]
        text = G.render_script(G.preamble(g, opts) + body, tb, markers=False)
        res, hev = run_hooked(text, timeout=job.get("timeout", 8))
        if res["status"] is None or len(hev) > MAX_EVENTS * 4:
            stats["timeouts"] = stats.get("timeouts", 0) + 1
            continue
        evs = convert_frames(tb, hev, "s", cfg, "main", stats)
        if evs is None:
            continue
        evs.append({"e": "Exit", "status": res["status"]})
        events += evs
        nruns += 1
        texts.append({"sid": "s", "cfg": cfg, "kind": "main", "io": "file", "text": text, "out": res["out"][:2000],
                      "status": res["status"], "sig": res["sig"]})
        answers += [x for x in res["out"].split() if x in ("sat", "unsat", "unknown")]
    tb.true(); tb.false()
    fam = [{"e": "Fam", "tt": tb.recs, "dom": []}]
    sample = {"builder": "frames", "logic": job["logic"], "seed": job["seed"], "script": texts[0]["text"][:1200] if texts else "",
              "answers": answers[:8], "stats": dict(stats)}
    return {"events": fam + events, "runs": nruns, "sample": sample, "nontrivial": stats.get("checks", 0) > 1 and stats.get("frames", 0) > 0,
            "texts": texts, "stats": dict(stats, answers=answers)}

B.BUILDERS["frames"] = b_frames
