"""Per-property plans: which families to build, which trace specification validates them,
which exhaustive configurations belong to the property."""
import os, json, random, hashlib, time
import tlc as T

VERIF = os.path.dirname(os.path.dirname(os.path.abspath(__file__)))
BUILD = os.environ.get("VERIF_BUILD") or os.path.join(VERIF, "build")

ALL_LOGICS = ["QF_BOOL", "QF_UF", "QF_LRA", "QF_LIA", "QF_RDL", "QF_IDL", "QF_UFLRA", "QF_UFLIA", "QF_UFIDL",
              "QF_UFRDL", "QF_AX", "QF_ALIA", "QF_AUFLIA"]
MODEL_LOGICS = ["QF_BOOL", "QF_UF", "QF_LRA", "QF_LIA", "QF_RDL", "QF_IDL", "QF_UFLRA", "QF_UFLIA", "QF_UFIDL", "QF_UFRDL"]
NONINT_LOGICS = ["QF_BOOL", "QF_UF", "QF_LRA", "QF_RDL", "QF_UFLRA", "QF_UFRDL", "QF_AX"]
ITP_LOGICS = ["QF_BOOL", "QF_UF", "QF_LRA", "QF_LIA"]

# the thorough tier explores THOROUGH_SCALE times the nominal thorough sizes (nominal = 20 x quick); 0.3 keeps every
# thorough check under about half an hour on 16 cores; VERIF_THOROUGH_SCALE=1 gives the full nominal sizes
THOROUGH_SCALE = float(os.environ.get("VERIF_THOROUGH_SCALE", "0.3"))
def N(tier, q, t):
    if tier == "quick":
        return q
    if isinstance(t, int) and isinstance(q, int) and t > 4 * q:
        return max(q, int(t * THOROUGH_SCALE))
    return t

def seeds(seed, pid, n):
    r = random.Random("%s/%s" % (seed, pid))
    return [r.randrange(1 << 30) for _ in range(n)]

def spread(seed, pid, n, logics, builder, **kw):
    jobs = []
    ss = seeds(seed, pid, n)
    for i, s in enumerate(ss):
        j = {"builder": builder, "seed": s, "logic": logics[i % len(logics)]}
        j.update(kw)
        jobs.append(j)
    return jobs

# ------------------------------------------------------------------ exhaustive configurations
def spec_hash(mods):
    h = hashlib.sha1()
    for root, _, files in sorted(os.walk(os.path.join(VERIF, "spec"))):
        for f in sorted(files):
            if f.endswith((".tla", ".cfg")):
                with open(os.path.join(root, f), "rb") as fh:
                    h.update(f.encode()); h.update(fh.read())
    return h.hexdigest()[:16]

def design_results(pid, tier, plan):
    """run (or fetch from the per-spec-hash cache) the exhaustive configurations of the property"""
    out = {"states": 0, "transitions": 0, "configs": []}
    cache_dir = os.path.join(BUILD, "mc_cache")
    os.makedirs(cache_dir, exist_ok=True)
    h = spec_hash(None)
    for mc in plan.get("mc", []):
        mc = dict(mc)
        if mc.get("tool") == "apalache":
            # symbolic check over unbounded integers: every state invariant at length 0
            cp = os.path.join(cache_dir, "apalache_%s_%s_%s.json" % (mc["module"], mc["inv"], h))
            if os.path.exists(cp):
                r = json.load(open(cp))
            else:
                import subprocess, shutil
                out_dir = os.path.join(BUILD, "apalache", mc["module"])
                shutil.rmtree(out_dir, ignore_errors=True)
                t0 = time.time()
                try:
                    pr = subprocess.run(["apalache-mc", "check", "--length=%d" % mc.get("length", 0), "--inv=" + mc["inv"], "--out-dir=" + out_dir,
                                         mc["module"] + ".tla"], cwd=T._specdir(), stdout=subprocess.PIPE, stderr=subprocess.STDOUT, timeout=mc.get("timeout", 900))
                    txt = pr.stdout.decode("utf-8", "replace")
                    r = {"ok": "The outcome is: NoError" in txt, "violated": "The outcome is: Error" in txt, "to": False, "wall": time.time() - t0, "out": txt[-3000:]}
                except subprocess.TimeoutExpired:
                    r = {"ok": False, "violated": False, "to": True, "wall": time.time() - t0, "out": "timeout"}
                shutil.rmtree(out_dir, ignore_errors=True)
                if r["ok"] or r["violated"]:
                    json.dump(r, open(cp, "w"))
            out["configs"].append({"config": "apalache:%s/%s" % (mc["module"], mc["inv"]), "ok": r["ok"], "unbounded": True, "wall_s": round(r["wall"], 1),
                                   "timed_out": r["to"]})
            if r.get("violated") and mc.get("owner", True):
                d = os.path.join(BUILD, "replay", pid, "design_" + mc["module"])
                os.makedirs(d, exist_ok=True)
                with open(os.path.join(d, "apalache.out"), "w") as f:
                    f.write(r.get("out", ""))
                out["failed"] = d
            continue
        if tier == "thorough" and mc.get("cfg_thorough"):
            mc["cfg"] = mc["cfg_thorough"]
        name = mc["module"] + ("/" + mc["cfg"] if mc.get("cfg") else "")
        cp = os.path.join(cache_dir, "%s_%s_%s.json" % (mc["module"], mc.get("cfg", ""), h))
        r = None
        if os.path.exists(cp) and not (tier == "thorough" and mc.get("rerun_thorough", False)):
            with open(cp) as f:
                r = json.load(f)
        if r is None:
            r = T.model_check(mc["module"], mc.get("cfg"), workers=mc.get("workers", 8), timeout=mc.get("timeout", 1500),
                              xmx=mc.get("xmx", "8g"))
            r.pop("out_full", None)
            if r["ok"] or (not r["to"]):
                with open(cp, "w") as f:
                    json.dump(r, f)
        never = [a for a, n in r.get("coverage", {}).items() if n == 0 and a not in mc.get("may_be_unused", [])]
        if mc.get("expect_fail"):
            # a configuration that must exhibit a violation (a named deviation or a deliberately broken engine):
            # it shows that the invariants discriminate; it never makes the check fail
            out["configs"].append({"config": name, "expected": "violation", "violated": (not r["ok"]) and not r["to"],
                                   "distinct_states": r["distinct"], "wall_s": round(r["wall"], 1)})
            continue
        out["configs"].append({"config": name, "ok": r["ok"], "distinct_states": r["distinct"], "states_generated": r["generated"],
                               "depth": r.get("depth", 0), "actions_taken": r.get("coverage", {}), "never_taken": never,
                               "wall_s": round(r["wall"], 1), "timed_out": r["to"]})
        out["states"] += r["distinct"]
        out["transitions"] += r["generated"]
        if not r["ok"] and not r["to"] and mc.get("owner", True):
            # a design-level property fails in the exhaustive configuration
            d = os.path.join(BUILD, "replay", pid, "design_" + mc["module"])
            os.makedirs(d, exist_ok=True)
            with open(os.path.join(d, "tlc.out"), "w") as f:
                f.write(r.get("out", ""))
            out["failed"] = d
    return out

# ------------------------------------------------------------------ plans
def only(*tags):
    return lambda v: v.get("p")

PLANS = {}

COMBO_LOGICS = ["QF_UFLRA", "QF_UFLIA", "QF_ALIA", "QF_AUFLIA", "QF_UFLRA", "QF_UFLIA"]
PLANS["C01"] = {
    "jobs": lambda seed, tier: spread(seed, "C01", N(tier, 130, 2600), ALL_LOGICS, "answers") +
                               spread(seed, "C01i", N(tier, 30, 600), COMBO_LOGICS, "answers", mode="interface") +
                               spread(seed, "C01d", N(tier, 20, 400), ["QF_IDL", "QF_RDL", "QF_IDL", "QF_RDL", "QF_UFIDL"], "answers", mode="cnf", nnum=5, maxconst=2, n_atoms=10) +
                               spread(seed, "C01e", N(tier, 30, 600), ["QF_UF"], "answers", mode="diamond") +
                               spread(seed, "C01u", N(tier, 30, 600), ["QF_LRA", "QF_LRA", "QF_LIA"], "answers", mode="guarded", nnum=6) +
                               spread(seed, "C01v", N(tier, 20, 400), ["QF_LRA"], "answers", mode="guarded", nnum=12) +
                               spread(seed, "C01y", N(tier, 30, 600), ["QF_UFLRA", "QF_UFLRA", "QF_UFLIA"], "answers", mode="eqsys") +
                               spread(seed, "C01g", N(tier, 40, 800), ["QF_IDL", "QF_RDL", "QF_IDL", "QF_RDL", "QF_UFIDL"], "answers", mode="dlgraph", nnum=5) +
                               spread(seed, "C01b", N(tier, 26, 600), ALL_LOGICS, "answers", more_cfgs=["la", "ghost"]),
    "rule": "random incremental scripts over all supported logic families; the kernel (TLC) evaluates candidate models "
            "(from z3, from the solver's own get-model, from its grid) of the active assertions at every check-sat; "
            "non-trivial = at least one definitive answer; distinct by script text",
    "assumptions": ["TLC evaluates spec/kernel/Terms.tla faithfully", "candidate models are only evaluated, never trusted",
                    "scripts are bounded: <= 6 atoms, constants <= 8, depth <= 3"],
}
PLANS["C02"] = {
    "jobs": lambda seed, tier: spread(seed, "C02", N(tier, 150, 3000),
                                      ["QF_BOOL", "QF_LIA", "QF_IDL", "QF_LIA", "QF_BOOL", "QF_IDL", "QF_UF", "QF_LRA", "QF_UFLIA",
                                       "QF_RDL", "QF_ALIA", "QF_AX", "QF_UFLRA"], "answers", n_assert=6) +
                               spread(seed, "C02i", N(tier, 60, 1200), COMBO_LOGICS, "answers", mode="interface") +
                               spread(seed, "C02d", N(tier, 20, 400), ["QF_IDL", "QF_RDL", "QF_IDL", "QF_RDL", "QF_UFIDL"], "answers", mode="cnf", nnum=5, maxconst=2, n_atoms=10) +
                               spread(seed, "C02g", N(tier, 40, 800), ["QF_IDL", "QF_RDL", "QF_IDL", "QF_RDL", "QF_UFIDL"], "answers", mode="dlgraph", nnum=5),
    "rule": "as C01; refutations by the kernel: exhaustive grid for propositional and boxed-integer scripts, "
            "congruence closure / Fourier-Motzkin / Bellman-Ford refutations where implemented; sat answers are also "
            "checked by evaluating the printed model (C03 monitor)",
    "assumptions": ["kernel refutation is exact only in the stated fragments; elsewhere the verdict is unknown and nothing is claimed"],
}
PLANS["C03"] = {
    "jobs": lambda seed, tier: spread(seed, "C03", N(tier, 150, 3000), MODEL_LOGICS, "models") +
                               spread(seed, "C03i", N(tier, 60, 1200), ["QF_UFLRA", "QF_UFLIA"], "models", mode="interface") +
                               spread(seed, "C03y", N(tier, 30, 600), ["QF_UFLRA", "QF_UFLRA", "QF_UFLIA"], "models", mode="eqsys") +
                               spread(seed, "C03s", N(tier, 90, 1800), ["QF_LRA", "QF_LRA", "QF_LIA"], "models", mode="sums", nnum=4, box=False),
    "rule": "satisfiable-biased scripts with get-model, get-value and get-assignment after every check; non-trivial = a model was printed",
}
def frames_jobs(seed, pid, n):
    jobs = spread(seed, pid, n, ALL_LOGICS, "frames", module="MainSolver_Trace")
    cfgsets = [["c0"], ["cores"], ["itp"], ["proofs"], ["c0", "la"], ["ghost"], ["nosubst"]]
    for i, j in enumerate(jobs):
        j["cfgs"] = cfgsets[i % len(cfgsets)]
        j["mode"] = ["cnf", "random", "unsatbiased", "cnf"][i % 4]
    return jobs
PLANS["C04"] = {
    "jobs": lambda seed, tier: spread(seed, "C04", N(tier, 80, 1600), ALL_LOGICS, "incremental") +
                               spread(seed, "C04c", N(tier, 90, 1800), ["QF_BOOL", "QF_LRA", "QF_UF", "QF_LIA", "QF_IDL", "QF_UFLRA"], "incremental", mode="cnf") +
                               spread(seed, "C04r", N(tier, 40, 800), ["QF_UFLIA", "QF_UFLRA", "QF_UFLRA", "QF_LRA"], "incremental", mode="reenter") +
                               frames_jobs(seed, "C04f", N(tier, 120, 2400)),
    "mc": [{"module": "MC_MainSolver", "cfg": "MC_MainSolver_quick", "cfg_thorough": "MC_MainSolver", "workers": 8, "timeout": 1500},
           {"module": "MC_MainSolver", "cfg": "MC_MainSolver_nocf", "expect_fail": True, "owner": False},
           {"module": "MC_MainSolver", "cfg": "MC_MainSolver_stale", "expect_fail": True, "owner": False}],
    "rule": "incremental histories (push/pop/assert/check/get-*) plus, for every check-sat, a fresh run on the flattened "
            "active assertions; memo keyed by the specification's own Active set",
}
PLANS["C05"] = {
    "jobs": lambda seed, tier: spread(seed, "C05", N(tier, 70, 1500), ALL_LOGICS, "configs",
                                      cfgs=["seed", "la", "picky", "ghost", "proofs", "cores", "nosubst", "luby0", "rf1",
                                            "ccmin0", "noinc", "embed", "itp", "models"][: N(tier, 14, 14)]) +
                               # dense difference-logic clause sets over five variables: the graph-based solver of QF_IDL/QF_RDL
                               # against the simplex solver of the embedding logic
                               spread(seed, "C05d", N(tier, 20, 400), ["QF_IDL", "QF_RDL"], "configs", mode="cnf", nnum=5, maxconst=2, n_atoms=10,
                                      cfgs=["embed", "seed", "cores", "proofs"]) +
                               spread(seed, "C05e", N(tier, 40, 800), ["QF_UF"], "configs", mode="diamond",
                                      cfgs=["cores", "proofs", "embed", "nosubst", "seed", "la"]) +
                               spread(seed, "C05g", N(tier, 80, 1600), ["QF_IDL", "QF_RDL"], "configs", mode="dlgraph", nnum=5,
                                      cfgs=["embed", "seed", "cores", "proofs"]),
    "rule": "one script under up to 15 configurations (engines, seeds, tracking, preprocessing, restarts, logic embedding); "
            "memo keyed by the Active set across runs; contradicting definitive answers are violations",
}

PLANS["C06"] = {
    "jobs": lambda seed, tier: spread(seed, "C06", N(tier, 120, 2400), ["QF_BOOL", "QF_LIA", "QF_UF", "QF_LRA", "QF_IDL", "QF_UFLRA", "QF_ALIA", "QF_AX"], "cores") +
                               spread(seed, "C06f", N(tier, 30, 600), ["QF_BOOL", "QF_LIA", "QF_UF", "QF_LRA"], "cores", full=True) +
                               spread(seed, "C06m", N(tier, 40, 800), ["QF_BOOL", "QF_LIA", "QF_BOOL", "QF_IDL"], "cores", minimal=True, n_named=5),
    "rule": "unsat-biased scripts with named (top-level and nested) and unnamed assertions, names on popped levels and "
            "re-introduced names, get-unsat-core after every check; non-trivial = a core was printed",
}
PLANS["C07"] = {
    "jobs": lambda seed, tier: spread(seed, "C07", N(tier, 110, 2200), ["QF_BOOL", "QF_LIA", "QF_IDL", "QF_BOOL", "QF_LIA"], "cores", minimal=True, n_named=5, p_hidden_unsat=0.35) +
                               spread(seed, "C07f", N(tier, 20, 400), ["QF_BOOL", "QF_LIA"], "cores", minimal=True, full=True),
    "rule": "as C06 with :minimal-unsat-cores; irreducibility is refuted only by an exact kernel refutation "
            "(propositional and boxed-integer fragments)",
}
def itp_jobs(seed, pid, n, groups):
    r = random.Random("%s/%s" % (seed, pid))
    jobs = []
    for s in seeds(seed, pid, n):
        io = []
        if r.random() < 0.8: io.append((":interpolation-bool-algorithm", str(r.randint(0, 5))))
        if r.random() < 0.6: io.append((":interpolation-euf-algorithm", str(r.choice([0, 2, 3]))))
        if r.random() < 0.6: io.append((":interpolation-lra-algorithm", str(r.choice([0, 2, 3, 4, 5]))))
        if r.random() < 0.3: io.append((":interpolation-lra-factor", r.choice(['"1/2"', '"1/4"', '"3/4"'])))
        if r.random() < 0.3: io.append((":proof-reduce", "1"))
        if r.random() < 0.4: io.append((":simplify-interpolants", str(r.randint(0, 4))))
        jobs.append({"builder": "itp", "seed": s, "logic": ITP_LOGICS[len(jobs) % len(ITP_LOGICS)], "itp_opts": io,
                     "groups": groups if groups else r.choice([2, 2, 3]), "n_named": 4 if groups == 2 else 5})
    # conjunctions of inequalities built from a Farkas certificate, with local and shared variables: every run
    # reaches the LRA interpolation algorithms (incl. the decomposing ones) with a conflict of 5 to 9 rows
    for i, s in enumerate(seeds(seed, pid + "f", max(n // 3, 8))):
        io = [(":interpolation-lra-algorithm", str([0, 2, 3, 4, 5, 4, 5][i % 7]))]
        if r.random() < 0.3: io.append((":interpolation-lra-factor", r.choice(['"1/2"', '"1/4"', '"3/4"'])))
        if r.random() < 0.3: io.append((":simplify-interpolants", str(r.randint(0, 4))))
        jobs.append({"builder": "itp", "mode": "farkas", "seed": s, "logic": ["QF_LRA", "QF_LRA", "QF_LIA"][i % 3], "itp_opts": io,
                     "groups": groups if groups else 2})
    return jobs
PLANS["C08"] = {
    "jobs": lambda seed, tier: itp_jobs(seed, "C08", N(tier, 120, 2400), 2),
    "rule": "unsat QF_UF/QF_LRA/QF_LIA scripts with named assertions, random A/B splits, random interpolation algorithm "
            "vectors, push/pop histories; non-trivial = interpolants were printed",
}
PLANS["C09"] = {
    "jobs": lambda seed, tier: itp_jobs(seed, "C09", N(tier, 80, 1600), 3) + itp_jobs(seed, "C09b", N(tier, 16, 320), 4) +
                               # proof-sensitive labelling (algorithms 3, 4, 5) on propositional structure with many named clauses
                               [dict(j, itp_opts=[(":interpolation-bool-algorithm", str([3, 5, 3, 5, 4][i % 5]))], n_named=7, n_atoms=4, splits=3,
                                     logic=["QF_BOOL", "QF_UF", "QF_BOOL", "QF_LRA"][i % 4], groups=[3, 3, 4][i % 3])
                                for i, j in enumerate(spread(seed, "C09p", N(tier, 50, 1000), ["QF_BOOL"], "itp"))],
    "rule": "as C08 with 3 or 4 ordered groups; every interpolant is checked as a Craig interpolant of prefix versus rest and "
            "every consecutive pair for the path property",
}
def c19_remap(v, fam):
    """a violation in the variant with rejected commands that the clean variant does not show is a C19 matter"""
    if v.get("p") == "C19":
        return "C19"
    if v.get("kind") == "reject" and v.get("afterReject") and v.get("p") in ("C01", "C02", "C03", "C04", "C06", "C07", "C21"):
        same_in_clean = any(w.get("kind") == "main" and w.get("p") == v.get("p") and
                            json.dumps(w.get("why"), sort_keys=True) == json.dumps(v.get("why"), sort_keys=True) for w in fam)
        if not same_in_clean:
            return "C19"
    return v.get("p")
PLANS["C19"] = {
    "jobs": lambda seed, tier: spread(seed, "C19", N(tier, 130, 2600), ALL_LOGICS, "reject"),
    "remap": c19_remap,
    "rule": "a valid script and the same script with 1-3 rejected commands inserted at random positions (unknown symbols, "
            "ill-sorted terms, names inside rejected terms, illegal pop, bad definitions, wrong mode); both are replayed against "
            "the specification, in which a rejected command changes nothing; responses are also compared command by command",
}
def names_jobs(seed, tier):
    parts = N(tier, 6, 12)
    cfg = N(tier, "MC_Names_emit4", "MC_Names_emit")
    jobs = [{"builder": "namesdrv", "seed": 0, "logic": "-", "module": "Names_Trace", "source": "spec", "cfg": cfg, "part": k, "parts": parts}
            for k in range(parts)]
    jobs += spread(seed, "C21n", N(tier, 6, 60), ["-"], "namesdrv", module="Names_Trace", count=N(tier, 40, 80))
    jobs += spread(seed, "C21ng", N(tier, 2, 20), ["-"], "namesdrv", module="Names_Trace", count=N(tier, 30, 60), globaldecl=True)
    return jobs
PLANS["C21"] = {
    "pre": lambda: driver_build(),
    "mc": [{"module": "MC_Names", "workers": 6}, {"module": "MC_Names", "cfg": "MC_Names_global", "workers": 4}],
    "jobs": lambda seed, tier: names_jobs(seed, tier) +
                               spread(seed, "C21", N(tier, 90, 1800), ["QF_BOOL", "QF_UF", "QF_LRA", "QF_LIA", "QF_IDL", "QF_UFLRA"], "names") +
                               spread(seed, "C21g", N(tier, 30, 600), ["QF_BOOL", "QF_UF", "QF_LRA", "QF_LIA"], "names", globaldecl=True) +
                               spread(seed, "C21c", N(tier, 40, 800), ["QF_BOOL", "QF_LIA", "QF_UF", "QF_LRA"], "cores", assign=True),
    "rule": "scripted scope scenarios (name and define-fun introduced on a level, popped, re-introduced, referenced in cores, "
            "assignments and interpolation requests; with and without :global-declarations) plus random named histories",
}

PLANS["C20"] = {
    "jobs": lambda seed, tier: spread(seed, "C20", N(tier, 110, 2000), ALL_LOGICS, "pipe") +
                               spread(seed, "C20e", N(tier, 40, 800), ["QF_BOOL", "QF_LRA", "QF_UF"], "pipe", escapes=True, all_chunks=True),
    "per_batch": 10,
    "rule": "scripts with symbols that need quoting (parentheses, semicolons, quotes inside |..|), echo strings containing "
            "parentheses / semicolons / bars / escapes, comments with unbalanced parentheses and quotes, odd line breaks; "
            "run from a file and through -p with chunk schedules 1,2,3,7,16,64,mixed,whole; stdout hash and exit status "
            "must be a function of (script, configuration)",
}
PLANS["C23"] = {
    "confirm_tries": 5,
    "jobs": lambda seed, tier: spread(seed, "C23", N(tier, 140, 2500), ALL_LOGICS, "rerun", third=(tier != "quick")),
    "level": "other",
    "rule": "every script is executed twice (thorough: three times) with address-space randomisation on, different environment "
            "size and working directory; byte-identical stdout and equal exit status required",
    "coverage": lambda goods: {"explanation": "functional-dependency monitor in Script_Trace (memoOut keyed by script and configuration); "
                               "a behavioural specification cannot explain non-determinism, it can only observe it on repeated executions"},
}
PLANS["C29"] = {
    "jobs": lambda seed, tier: spread(seed, "C29", N(tier, 130, 2600), ["QF_IDL", "QF_RDL", "QF_IDL", "QF_UFIDL", "QF_RDL", "QF_LIA", "QF_LRA", "QF_UFRDL"], "outlogic"),
    "remap": lambda v: "C29" if (v.get("p") in ("C01", "C02", "C05", "C04") and (v.get("kind") == "outlogic" or v.get("p") == "C05")) else v.get("p"),
    "rule": "well-sorted scripts outside the declared fragment (three variables, sums, non-unit coefficients under difference "
            "logics; products of variables); accepted answers are judged by the kernel in the richer theory and compared "
            "with the run under the embedding logic; a rejection is fine",
}
PLANS["C30"] = {
    "jobs": lambda seed, tier: spread(seed, "C30", N(tier, 60, 1200), NONINT_LOGICS, "configs",
                                      cfgs=["la", "picky", "ghost", "proofs", "cores", "itp", "seed", "nosubst", "rf1"], timeout=20) +
                               spread(seed, "C30i", N(tier, 40, 800), NONINT_LOGICS, "incremental") +
                               spread(seed, "C30d", N(tier, 20, 400), ["QF_RDL", "QF_UFRDL", "QF_LRA", "QF_RDL"], "configs", mode="cnf", maxconst=1,
                                      cfgs=["proofs", "cores", "seed", "itp"], timeout=20) +
                               spread(seed, "C30u", N(tier, 30, 600), ["QF_LRA"], "configs", mode="guarded", nnum=6, cfgs=["proofs", "seed"], timeout=20) +
                               spread(seed, "C30v", N(tier, 20, 400), ["QF_LRA"], "configs", mode="guarded", nnum=12, cfgs=["proofs"], timeout=20) +
                               spread(seed, "C30y", N(tier, 40, 800), ["QF_UFLRA"], "configs", mode="eqsys", cfgs=["seed", "nosubst", "cores"], timeout=20) +
                               spread(seed, "C30t", N(tier, 12, 240), ["QF_UF", "QF_UF", "QF_UFLRA"], "configs", mode="tower", cfgs=["seed", "cores"], timeout=20) +
                               spread(seed, "C30g", N(tier, 40, 800), ["QF_RDL", "QF_UFRDL", "QF_RDL"], "configs", mode="dlgraph", nnum=5,
                                      cfgs=["proofs", "cores", "seed"], timeout=20),
    "rule": "every check-sat of the non-integer script space under all engines and tracking options and in push/pop histories "
            "must answer within 20 s (the default engine answers these instances in milliseconds); besides random histories: "
            "difference-constraint graphs, guarded simplex systems of 6 and 12 variables (Bland's rule), systems of top-level "
            "equalities over nested uninterpreted terms (substitution pass), towers g(t,t) and shared conjunctions of depth "
            "24-60 written with let (small as DAGs, huge as trees; judged on returning and on agreement only)",
}
PLANS["C18"] = {
    "flavours": ["rel", "asan"],
    "jobs": lambda seed, tier: spread(seed, "C18", N(tier, 220, 6000), ALL_LOGICS, "badinput"),
    "per_batch": 25,
    "level": "model_checking",
    "rule": "grammar-based scripts damaged at token level (deletion, duplication, swap, parenthesis damage, junk bytes, truncation, "
            "sort confusion, odd numerals), unsupported or ill-formed commands injected at random positions, shuffled command order; "
            "file and pipe; AddressSanitizer+UBSan build; the specification's reject/exit-status rules are the oracle",
}

ARITH_LOGICS = ["QF_LRA", "QF_LIA", "QF_UFLRA", "QF_UFLIA", "QF_RDL", "QF_IDL", "QF_ALIA", "QF_AUFLIA"]
THEORY_LOGICS = ["QF_UF", "QF_LRA", "QF_LIA", "QF_RDL", "QF_IDL", "QF_UFLRA", "QF_UFLIA", "QF_UFIDL", "QF_UFRDL", "QF_AX", "QF_ALIA", "QF_AUFLIA"]
def engine_jobs(seed, pid, n, logics, cfgsets, **kw):
    jobs = spread(seed, pid, n, logics, "engine", **kw)
    for i, j in enumerate(jobs):
        j["cfgs"] = cfgsets[i % len(cfgsets)]
        j["mode"] = kw.get("modes", ["unsatbiased", "random", "random"])[i % len(kw.get("modes", [1, 2, 3]))]
    return jobs
PLANS["C11"] = {
    "module": "Engine_Trace",
    "jobs": lambda seed, tier: engine_jobs(seed, "C11", N(tier, 150, 3000), THEORY_LOGICS,
                                           [["c0"], ["c0", "la"], ["ghost"], ["picky"], ["proofs"], ["seed"]], need="tcl") +
                               engine_jobs(seed, "C11d", N(tier, 60, 1200), ["QF_IDL", "QF_RDL", "QF_IDL", "QF_RDL", "QF_LRA", "QF_UF"],
                                           [["c0"], ["proofs"], ["cores"]], need="tcl", modes=["cnf", "dlgraph", "dlgraph"], nnum=5, maxconst=2, n_atoms=12, ratio=2.2) +
                               engine_jobs(seed, "C11g", N(tier, 40, 800), ["QF_LRA", "QF_LRA", "QF_LIA"], [["c0"], ["proofs"]], need="tcl", modes=["guarded"], nnum=6, timeout=10) +
                               engine_jobs(seed, "C11h", N(tier, 30, 600), ["QF_LRA"], [["c0"], ["proofs"]], need="tcl", modes=["guarded"], nnum=12, timeout=10),
    "rule": "every theory clause (conflict, explanation of a propagation, split, root-level deduction) of runs over the theory "
            "logics and engines; the kernel evaluates candidate models of the negated clause; non-trivial = the run produced a theory clause",
}
PLANS["C12"] = {
    "module": "Engine_Trace",
    "jobs": lambda seed, tier: engine_jobs(seed, "C12", N(tier, 150, 3000), ALL_LOGICS,
                                           [["c0"], ["la"], ["ghost"], ["noinc"], ["picky"], ["c0", "noinc"], ["ccmin0"], ["rf1"]],
                                           need="learnt", n_atoms=8, n_assert=8, modes=["cnf", "cnf", "random", "cnf", "unsatbiased"]) +
                               # many related theory atoms inside Boolean structure: conflicts whose analysis and
                               # minimisation walk through theory-propagated literals
                               engine_jobs(seed, "C12b", N(tier, 60, 1200), ["QF_UF", "QF_LRA", "QF_IDL", "QF_UF", "QF_UFLRA", "QF_LIA", "QF_RDL"],
                                           [["c0"], ["c0"], ["noinc"], ["proofs"]], need="learnt", n_atoms=22, ratio=2.6, modes=["cnf"], timeout=10),
    "rule": "every learnt or derived clause (conflict analysis in search / handleUnsat / lookahead, SatELite resolvents and "
            "strengthening, units of split clauses) must be RUP w.r.t. the inputs, theory clauses and earlier learnt clauses; "
            "non-trivial = the run learnt a clause",
}
PLANS["C13"] = {
    "module": "Engine_Trace",
    "jobs": lambda seed, tier: engine_jobs(seed, "C13", N(tier, 140, 2800), ALL_LOGICS,
                                           [["c0"], ["cores"], ["itp"], ["nosubst"], ["proofs"]], need="frames") +
                               engine_jobs(seed, "C13d", N(tier, 40, 800), ["QF_UF"], [["c0"], ["c0"], ["nosubst"], ["cores"]], need="frames", modes=["diamond"]),
    "rule": "per frame: asserted formulas versus the roots given to the CNF converter for all active frames (whole-frame and "
            "per-partition mode); the kernel evaluates candidate models of (given and not asserted)",
}
PLANS["C26"] = {
    "module": "Engine_Trace",
    "jobs": lambda seed, tier: engine_jobs(seed, "C26", N(tier, 150, 3000), ARITH_LOGICS,
                                           [["c0"], ["itp"], ["la"], ["seed"]], need="farkas", n_atoms=6) +
                               engine_jobs(seed, "C26g", N(tier, 40, 800), ["QF_LRA", "QF_LRA", "QF_LIA"], [["c0"], ["itp"]], need="farkas", modes=["guarded"], nnum=6, timeout=10),
    "rule": "every conflict of the LA solver with its coefficients; non-trivial = at least one Farkas certificate was checked",
}

def driver_build(flavours=("rel",)):
    import subprocess
    for fl in flavours:
        r = subprocess.run([os.path.join(VERIF, "bin", "build_drivers.sh"), fl], stdout=subprocess.PIPE, stderr=subprocess.STDOUT)
        if r.returncode != 0:
            print(r.stdout.decode()[-2000:])
            return False
    return True
PLANS["C14"] = {
    "module": "Terms_Trace", "pre": lambda: driver_build(),
    "jobs": lambda seed, tier: spread(seed, "C14", N(tier, 45, 900), ["ALL"], "terms", size=N(tier, 70, 90)) +
                               spread(seed, "C14b", N(tier, 20, 400), ["ALL"], "terms", size=N(tier, 70, 90), big=True) +
                               spread(seed, "C14d", N(tier, 8, 160), ["ALL"], "terms", size=N(tier, 50, 70), burst="distinct"),
    "mc": [{"module": "MC_TermStore"}],
    "per_batch": 4,
    "rule": "sequences of constructor calls of depth <= 3 over Bool/Int/Real/U/Array variables and constants (zero, one, minus one, "
            "repeated and complementary arguments); every returned term is compared with op(args) on a grid of interpretations "
            "enumerated by TLC; non-trivial = more than 10 constructions were comparable; distinct by call sequence",
}
PLANS["C28"] = {
    "module": "Terms_Trace", "pre": lambda: driver_build(),
    "jobs": lambda seed, tier: spread(seed, "C28", N(tier, 60, 1200), ["ALL"], "terms", size=N(tier, 80, 100), big=True),
    "mc": [{"module": "MC_TermStore"}],
    "per_batch": 4,
    "rule": "sequences of constructor calls with repeated and argument-permuted calls; identities (PTRef) must be a function of the "
            "call, injective w.r.t. printed structure, and larger than the identities of the arguments",
}

TS_LOGICS = ["QF_LRA", "QF_UF", "QF_RDL", "QF_IDL", "QF_LIA"]
def tsolver_jobs(seed, tier):
    jobs = spread(seed, "C22t", N(tier, 28, 700), TS_LOGICS, "tsolver", mode="tlc", nseq=N(tier, 40, 60), n_atoms=3)
    jobs += spread(seed, "C22r", N(tier, 42, 1000), TS_LOGICS, "tsolver", mode="random", nseq=N(tier, 5, 8), n_atoms=7)
    jobs += spread(seed, "C22a", N(tier, 20, 500), ["QF_AX"], "tsolver", mode="random", nseq=N(tier, 8, 10), n_atoms=7)
    jobs += spread(seed, "C22b", N(tier, 6, 100), ["QF_AX"], "tsolver", mode="tlc", nseq=N(tier, 40, 60), n_atoms=3)
    return jobs
PLANS["C22"] = {
    "module": "TSolver_Trace", "pre": lambda: driver_build(),
    "jobs": tsolver_jobs,
    "mc": [{"module": "MC_TSolver"},
           {"module": "MC_ArrayLemmas"},
           {"module": "MC_ArrayLemmas", "cfg": "MC_ArrayLemmas_recompute"},
           {"module": "MC_ArrayLemmas", "cfg": "MC_ArrayLemmas_keep", "expect_fail": True, "owner": False},
           {"module": "MC_ArrayLemmas", "cfg": "MC_ArrayLemmas_logged", "expect_fail": True, "owner": False}],
    "per_batch": 6,
    "remap": lambda v: "C22" if v.get("p") in ("C22",) else v.get("p"),
    "rule": "operation sequences (declare / assert / retract / check) on the LA, EUF, array and difference-logic solvers through TSolverHandler: "
            "(a) behaviours of MC_TSolver (all complete sequences of 4 operations over 3 atoms, sampled per family) with concrete atoms, "
            "(b) random sequences of 20-50 operations over 7 atoms; verdicts judged by the kernel (model evaluation / FM+CC refutation) "
            "and by a memo keyed by the literal set; non-trivial = the sequence contains a check",
}

PLANS["C15"] = {
    "module": "Rat_Trace", "pre": lambda: driver_build(),
    "jobs": lambda seed, tier: spread(seed, "C15", N(tier, 60, 1200), ["-"], "rat", size=N(tier, 70, 90)),
    "per_batch": 6,
    "rule": "operation sequences on FastRational over a pool of word-boundary values (0, +-1, 2^31-1, +-2^31, 2^32+-1, 2^53, 2^63, 2^64, "
            "fractions with such numerators/denominators), operands taken from literals and from earlier results; every result is "
            "checked by TLC with BigInt arithmetic (cross-multiplication, Bezout / quotient certificates); non-trivial = the sequence "
            "produced at least one arbitrary-precision value",
    "assumptions": ["decimal strings printed by get_str are converted to limb sequences by the harness (base conversion is trusted)"],
}

PLANS["C25"] = {
    "pre": lambda: driver_build(("rel", "tsan")),
    "flavours": ["rel", "tsan"],
    "jobs": lambda seed, tier: spread(seed, "C25", N(tier, 36, 400), ["QF_BOOL", "QF_UF", "QF_LRA", "QF_LIA", "QF_IDL", "QF_UFLRA"], "stop", max_k=N(tier, 25, 60)) +
                               spread(seed, "C25n", N(tier, 16, 200), ["QF_BOOL", "QF_UF", "QF_LRA", "QF_BOOL"], "stop", max_k=N(tier, 60, 120), noinc=True, n_atoms=10, ratio=2.6) +
                               spread(seed, "C25i", N(tier, 16, 200), ["QF_LIA", "QF_UFLIA", "QF_LIA", "QF_ALIA"], "stop", max_k=N(tier, 60, 120), mode="integrality", ratio=0.7, nnum=4) +
                               spread(seed, "C25t", N(tier, 10, 150), ["QF_BOOL", "QF_LRA", "QF_UF", "QF_LIA"], "stop", max_k=2, threads=N(tier, 6, 15), flavour="tsan"),
    "mc": [{"module": "MC_Stop"}],
    "remap": lambda v: "C25" if (v.get("kind") == "stop" and v.get("p") in ("C01", "C02", "C04", "C05", "C18")) else v.get("p"),
    "per_batch": 3,
    "rule": "for small satisfiable and unsatisfiable instances the poll points of check() are counted; then a local and a global stop request "
            "is issued synchronously at every poll point 1..K (every moment at which the engine can observe the flag), and from a second thread "
            "at random delays under ThreadSanitizer; the answer must be unknown or the answer the kernel / the undisturbed run gives; "
            "non-trivial = at least two poll points and a definitive baseline answer",
}

PLANS["C24"] = {
    "pre": lambda: driver_build(("rel", "tsan")),
    "flavours": ["rel", "tsan"],
    "jobs": lambda seed, tier: spread(seed, "C24", N(tier, 24, 300), ["-"], "threads", rounds=N(tier, 4, 10)) +
                               spread(seed, "C24t", N(tier, 8, 100), ["-"], "threads", rounds=2, flavour="tsan", threads=3),
    "mc": [{"module": "MC_SharedPool_perthread"}, {"module": "MC_SharedPool_locked"}],
    "remap": lambda v: "C24" if (v.get("kind") == "thread" and v.get("p") in ("C01", "C02", "C04", "C05", "C18")) else v.get("p"),
    "per_batch": 2,
    "rule": "2-8 solver instances (own Logic, SMTConfig, MainSolver each) started together in concurrent threads on LRA/LIA/UF problems with "
            "coefficients beyond 2^64, several rounds; every thread's answer is compared with its solo run (memo of Script_Trace) and, where the "
            "numbers are small, with the kernel; the same under ThreadSanitizer; non-trivial = a definitive answer was compared",
}

PLANS["C16"] = {
    "module": "NumLit_Trace", "pre": lambda: driver_build(),
    "jobs": lambda seed, tier: spread(seed, "C16", N(tier, 50, 1000), ["-"], "numlit", size=0),
    "per_batch": 10,
    "rule": "numeral / decimal / fraction strings (fixed boundary list, random digit strings up to 28 digits, leading and trailing zeros, "
            "damaged strings) given to the executable (one assert per literal in pipe mode, values read back with get-value) and to "
            "ArithLogic::mkConst; TLC reads every string with the reference reader NumLit.tla (BigInt) and compares accept/reject and value; "
            "non-trivial = more than three literals were accepted",
}

PLANS["C27"] = {
    "jobs": lambda seed, tier: spread(seed, "C27", N(tier, 150, 3000), ["QF_LIA", "QF_LIA", "QF_IDL", "QF_LIA", "QF_UFLIA"], "rounding"),
    "mc": [{"module": "MC_IntRound"}, {"tool": "apalache", "module": "IntRoundU", "inv": "All", "length": 0}],
    "remap": lambda v: "C27" if v.get("p") in ("C01", "C02", "C03", "C04") else v.get("p"),
    "rule": "boxed LIA/IDL scripts whose answers hinge on rounding: div and mod by constants of both signs (variables and constant folding), "
            "strict bounds with non-unit coefficients, equalities needing gcd reasoning, negated difference constraints; every check-sat "
            "is decided exactly by the kernel's exhaustive grid, models and get-value results are evaluated; the identities themselves "
            "are checked by TLC in MC_IntRound on -24..24 x divisors -7..7",
}

PLANS["C17"] = {
    "jobs": lambda seed, tier: spread(seed, "C17", N(tier, 140, 2800), MODEL_LOGICS + ["QF_AX", "QF_ALIA"], "printing"),
    "remap": lambda v: "C17" if (v.get("p") == "C17" or (v.get("kind") == "readback" and v.get("p") in ("C01", "C18", "C03"))) else v.get("p"),
    "level": "exploration",
    "rule": "symbols that need quoting, clash with reserved words or with generated parameter names (x!0), values of uninterpreted sorts; every "
            "printed model, get-value answer (values and echoed terms), full unsat core and interpolant is read by the strict SMT-LIB reader; the "
            "printed model is then given back to a fresh solver as define-funs together with the assertions, which must be accepted and satisfiable "
            "(the specification evaluates the assertions under the read definitions); non-trivial = something was printed and read",
}

PLANS["C10"] = {
    "jobs": lambda seed, tier: spread(seed, "C10", N(tier, 130, 2600), ["QF_BOOL", "QF_UF", "QF_LRA", "QF_LIA", "QF_IDL", "QF_UFLRA", "QF_RDL", "QF_UFLIA"], "proofs"),
    "rule": "unsat scripts with :produce-proofs over 8 logics, incremental histories (unsat levels popped and re-entered, repeated get-proof); "
            "Proof.tla checks: names bound once and before use, every resolution step has its pivot with opposite signs, the referenced final clause "
            "is bound and empty, activations refer to levels on the stack, every other leaf is implied by the current assertions (no model of "
            "assertions and negated leaf among the candidates); non-trivial = a proof was printed and read",
}

MC_SCRIPT = {"module": "MC_Script", "cfg": "MC_Script", "cfg_thorough": "MC_Script_deep", "timeout": 1500}
for _p in ("C01", "C02", "C03", "C04", "C05", "C06", "C07", "C19", "C21", "C29"):
    PLANS[_p].setdefault("mc", []).append(MC_SCRIPT)
PLANS["C20"].setdefault("mc", []).append({"module": "MC_PipeReader", "timeout": 900})
MC_CDCLT = {"module": "MC_CDCLT", "timeout": 1200}
for _p in ("C01", "C02", "C11", "C12"):
    PLANS[_p].setdefault("mc", []).append(MC_CDCLT)
PLANS["C14"]["mc"] = [{"module": "MC_TermStore"}]
