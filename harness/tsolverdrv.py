"""tsolver_driver conversations -> events for spec/trace/TSolver_Trace.tla (C22, C11)."""
import os, json, random, subprocess, re
from fractions import Fraction
import core as C
import builders as B
import tlc as T
from smtlib import Table, SmtError, BOOL, INT, REAL
from engine import TermReader

DRIVER = os.path.join(C.BUILD, "drivers", "rel", "tsolver_driver")
EXACT = {"QF_LRA", "QF_RDL", "QF_IDL", "QF_UF", "QF_UFLRA", "QF_UFRDL", "QF_UFIDL"}

class Conv:
    def __init__(self):
        self.p = subprocess.Popen([DRIVER], stdin=subprocess.PIPE, stdout=subprocess.PIPE, stderr=subprocess.PIPE)
        self.log = []
    def ask(self, line):
        self.log.append(line)
        self.p.stdin.write((line + "\n").encode()); self.p.stdin.flush()
        # one answer line per request; a driver that does not answer within the bound is killed (a change that
        # makes a solver loop must not hang the harness)
        import select
        if not select.select([self.p.stdout], [], [], 30)[0]:
            self.p.kill()
            raise RuntimeError("driver timeout after: " + line)
        out = self.p.stdout.readline().decode()
        if not out:
            raise RuntimeError("driver died after: " + line)
        self.log.append("  -> " + out.strip()[:300])
        return json.loads(out)
    def close(self):
        try:
            self.p.stdin.close(); self.p.wait(timeout=5)
        except Exception:
            self.p.kill()
        return self.p.returncode

def atom_lines(logic, rng, n):
    """driver lines that build n atoms; returns (lines, [term ids of the atoms])"""
    L = []
    ids = []
    nid = [0]
    def new():
        nid[0] += 1; return nid[0]
    arith = logic in ("QF_LRA", "QF_LIA", "QF_RDL", "QF_IDL", "QF_UFLRA", "QF_UFLIA", "QF_UFIDL", "QF_UFRDL")
    dl = logic in ("QF_RDL", "QF_IDL", "QF_UFIDL", "QF_UFRDL")
    uf = "UF" in logic
    S = "Int" if logic in ("QF_LIA", "QF_IDL", "QF_UFLIA", "QF_UFIDL") else "Real"
    xs, us = [], []
    consts = {}
    if logic == "QF_AX":
        return array_atom_lines(rng, n)
    if arith:
        for nm in "xyz":
            i = new(); L.append("var %d %s %s" % (i, S, nm)); xs.append(i)
    if uf:
        L.append("sort U"); L.append("fun f U U"); L.append("fun P Bool U")
        for nm in ("u0", "u1", "u2"):
            i = new(); L.append("var %d U %s" % (i, nm)); us.append(i)
        if arith and not dl:
            L.append("fun h %s %s" % (S, S))
    def const(v):
        key = str(v)
        if key not in consts:
            i = new(); L.append("num %d %s %s" % (i, S, key)); consts[key] = i
        return consts[key]
    def mk(op, args):
        i = new(); L.append("mk %d %s %s" % (i, op, " ".join(map(str, args)))); return i
    def uterm(d=1):
        if d == 0 or rng.random() < 0.55:
            return rng.choice(us)
        return mk("uf:f", [uterm(d - 1)])
    def lin():
        if dl:
            a, b = rng.sample(xs, 2)
            return mk("-", [a, b]) if rng.random() < 0.8 else a
        k = rng.choice([1, 1, 2, 2, 3])
        parts = []
        for v in rng.sample(xs, k):
            c = rng.choice([1, 1, -1, -1, 2])
            t = v
            if uf and not dl and rng.random() < 0.3:
                t = mk("uf:h", [v])
            parts.append(t if c == 1 else mk("*", [const(c), t]))
        return parts[0] if len(parts) == 1 else mk("+", parts)
    if uf and n >= 5 and rng.random() < 0.5:
        # a congruence skeleton: u0 = u1, f(u0) = u2 and an atom over f(u1) - when that one is declared only after the
        # first two are asserted, its term enters an Egraph in which a congruent term already exists
        fu0, fu1 = mk("uf:f", [us[0]]), mk("uf:f", [us[1]])
        ids.append(mk("=", [us[0], us[1]]))
        ids.append(mk("=", [fu0, us[2]]))
        ids.append(rng.choice([mk("=", [fu1, fu0]), mk("=", [fu1, us[2]]), mk("uf:P", [fu1])]))
        if rng.random() < 0.5:
            ids.append(mk("uf:P", [fu0]))
    tries = 0
    while len(ids) < n and tries < 10 * n:
        tries += 1
        kinds = (["a"] * 3 if arith else []) + (["u"] * 2 if uf else [])
        k = rng.choice(kinds)
        if k == "a":
            op = rng.choice(["<=", ">=", "<", ">"])
            c = rng.randint(-1, 1) if S == "Int" else rng.choice([-1, 0, 1, "1/2"])
            ids.append(mk(op, [lin(), const(c)]))
        else:
            x = rng.random()
            if x < 0.6:
                ids.append(mk("=", [uterm(), uterm()]))
            elif x < 0.8:
                # a distinction over three terms: the Egraph marks the classes of its arguments
                ids.append(mk("distinct", [uterm(), uterm(), uterm(0)]))
            else:
                ids.append(mk("uf:P", [uterm(1)]))
    return L, ids

def array_atom_lines(rng, n):
    """atoms of the theory of arrays: index equalities, element equalities between reads (also reads over one or two
    writes, so that read-over-weak-equivalence lemmas with one and with two conditions arise) and array equalities"""
    L = ["sort I", "sort E", "arrsort A I E"]
    nid = [0]
    def new():
        nid[0] += 1; return nid[0]
    def var(s, nm):
        i = new(); L.append("var %d %s %s" % (i, s, nm)); return i
    def mk(op, args):
        i = new(); L.append("mk %d %s %s" % (i, op, " ".join(map(str, args)))); return i
    arrs = [var("A", "a"), var("A", "b")]
    idx = [var("I", nm) for nm in ("i", "j", "k")]
    els = [var("E", nm) for nm in ("e0", "e1")]
    i_, j_, k_ = idx
    a, b = arrs
    w1 = mk("store", [a, j_, els[0]])
    w2 = mk("store", [w1, k_, els[1]])
    w3 = mk("store", [b, rng.choice(idx), rng.choice(els)])
    warrs = [w1, w2, w3]
    def arr():
        return rng.choice(arrs + warrs)
    def elem():
        return rng.choice(els) if rng.random() < 0.3 else mk("select", [arr(), rng.choice(idx)])
    ids = []
    # a skeleton that makes lemmas likely: a read of the base array against a read through the writes, and the index equalities
    if rng.random() < 0.8:
        r = rng.choice(idx)
        ids.append(mk("=", [mk("select", [a, r]), mk("select", [rng.choice([w1, w2, w2]), r])]))
        ids.append(mk("=", [r, rng.choice([x for x in idx if x != r])]))
        ids.append(mk("=", [i_, j_])); ids.append(mk("=", [i_, k_]))
    tries = 0
    while len(ids) < n + 2 and tries < 10 * n:
        tries += 1
        x = rng.random()
        if x < 0.35:
            p, q = rng.sample(idx, 2); t = mk("=", [p, q])
        elif x < 0.8:
            t = mk("=", [elem(), elem()])
        else:
            t = mk("=", [rng.choice(arrs), arr()])
        ids.append(t)
    return L, ids

_seqs_cache = None
def tlc_sequences():
    """complete behaviours of MC_TSolver (cached per spec hash in build/mc_cache)"""
    global _seqs_cache
    if _seqs_cache is not None:
        return _seqs_cache
    import plans
    cp = os.path.join(C.BUILD, "mc_cache", "tsolver_seqs_%s.json" % plans.spec_hash(None))
    os.makedirs(os.path.dirname(cp), exist_ok=True)
    if os.path.exists(cp):
        with open(cp) as f:
            _seqs_cache = json.load(f)
        return _seqs_cache
    r = T.run_tlc("MC_TSolver", workers=1, timeout=600)
    seqs = set()
    for line in r["out"].split("\n"):
        m = re.match(r'^"?@@SEQ (.*?)"?$', line.strip())
        if m:
            try:
                h = json.loads(T._unq(m.group(1)))
                seqs.add(json.dumps([(o["op"], o["t"], o["s"]) for o in h]))
            except Exception:
                pass
    out = {"seqs": sorted(seqs), "states": 0}
    mm = re.search(r"(\d+) states generated, (\d+) distinct states found", r["out"])
    if mm:
        out["generated"], out["states"] = int(mm.group(1)), int(mm.group(2))
    with open(cp, "w") as f:
        json.dump(out, f)
    _seqs_cache = out
    return out

def play(logic, setup, atoms, ops, tb, rd, hints_for, stats, exact, rng_local=random, lazy_declare=False):
    """run one operation sequence; ops: list of ("assert", k, pol) | ("check", complete) | ("pop", n)"""
    cv = Conv()
    evs = []
    try:
        cv.ask("logic " + logic)
        for ln in setup:
            cv.ask(ln)
        info = {}
        # some sequences declare an atom only when it is first asserted (as happens to atoms of lemmas and splits, which
        # reach the solvers in the middle of a search); the others declare everything up front
        lazy = bool(lazy_declare)
        def declare(k):
            a = cv.ask("atom %d" % atoms[k])
            if a.get("op") == "atom" and a["usable"]:
                t = rd.read(a["a"])
                info[k] = (atoms[k], t, tb.app("not", [t]), a["neg"])
            else:
                unusable.add(k)
        unusable = set()
        if not lazy:
            for k in range(len(atoms)):
                declare(k)
        stack = []          # (k, s) as the solver sees it (after normalisation)
        oklen = [0]         # prefix of the stack that passed a check
        cdcl_like = rng_local.random() < 0.85
        pending_bad = None  # explanation atoms after an inconsistency
        def lit_rec(k, s):
            _, t, n, _ = info[k]
            return {"t": t, "n": n, "s": s}
        def litset_ids(lits):
            return [x["t"] if x["s"] else x["n"] for x in lits]
        def small(ids):
            return tb.max_abs(ids) <= 2000
        def do_expl(expl):
            nonlocal pending_bad
            lits = []
            for x in expl:
                t = rd.read(x["a"])
                lits.append({"t": t, "n": tb.app("not", [t]), "s": bool(x["s"])})
            ids = litset_ids(lits)
            mon = small(ids)
            evs.append({"e": "expl", "lits": lits, "h": hints_for(ids) if mon else [], "mon": mon})
            pending_bad = [(x["t"], x["s"]) for x in lits]
        def force_pop():
            """after an inconsistency: retract down to (and including) the top-most explanation literal"""
            nonlocal pending_bad
            if pending_bad is None or not stack:
                pending_bad = None
                return
            keys = set(pending_bad)
            top = None
            for i in range(len(stack) - 1, -1, -1):
                k, s = stack[i]
                if (info[k][1], s) in keys:
                    top = i; break
            n = len(stack) - top if top is not None else 1
            if cdcl_like:
                # as CDCL does: everything asserted since the last successful check goes
                n = max(n, len(stack) - oklen[0])
            cv.ask("pop %d" % n)
            del stack[len(stack) - n:]
            oklen[0] = min(oklen[0], len(stack))
            evs.append({"e": "pop", "n": n})
            pending_bad = None
        for op in ops:
            if op[0] == "assert":
                k, pol = op[1], op[2]
                late = False
                if lazy and k not in info and k not in unusable and 0 <= k < len(atoms):
                    if pending_bad is not None:
                        force_pop()
                    late = len(stack) > 0
                    declare(k)
                if k not in info or any(info[k][1] == info[kk][1] for kk, _ in stack):
                    continue        # an atom is on the trail at most once
                if tb.rec(info[k][1]).get("op") == "distinct":
                    # the Egraph takes distinctions only positively (negated ones are expanded by the preprocessor)
                    pol = not info[k][3]
                if pending_bad is not None:
                    force_pop()
                    if any(info[k][1] == info[kk][1] for kk, _ in stack):
                        continue
                r = cv.ask("assert %d %d" % (info[k][0], 1 if pol else 0))
                s = bool(r["s"])
                stack.append((k, s))
                lits = [lit_rec(kk, ss) for kk, ss in stack]
                ids = litset_ids(lits)
                mon = small(ids)
                ev = lit_rec(k, s)
                ev.update({"e": "assert", "ok": bool(r["res"]), "h": hints_for(ids) if (mon and not r["res"]) else [], "mon": mon, "late": late})
                evs.append(ev)
                stats["asserts"] = stats.get("asserts", 0) + 1
                if not r["res"]:
                    stats["assert_conflicts"] = stats.get("assert_conflicts", 0) + 1
                    c = cv.ask("conflict")
                    do_expl(c.get("expl", []))
            elif op[0] == "check":
                if pending_bad is not None:
                    force_pop()
                r = cv.ask("check %d" % (1 if op[1] else 0))
                lits = [lit_rec(kk, ss) for kk, ss in stack]
                ids = litset_ids(lits)
                mon = small(ids)
                evs.append({"e": "check", "res": r["res"], "complete": bool(op[1]), "exact": exact, "h": hints_for(ids) if mon else [], "mon": mon})
                stats["checks"] = stats.get("checks", 0) + 1
                stats["check_" + r["res"]] = stats.get("check_" + r["res"], 0) + 1
                if r["res"] == "SAT":
                    oklen[0] = len(stack)
                if r["res"] == "UNSAT":
                    do_expl(r.get("expl", []))
                elif r["res"] == "SAT" and op[1]:
                    d = cv.ask("deduce")
                    for x in d.get("deds", [])[:6]:
                        t = rd.read(x["a"])
                        n = tb.app("not", [t])
                        s = bool(x["s"])
                        ids2 = ids + [n if s else t]
                        mon2 = small(ids2)
                        evs.append({"e": "deduce", "t": t, "n": n, "s": s, "h": hints_for(ids2) if mon2 else [], "mon": mon2})
                        stats["deductions"] = stats.get("deductions", 0) + 1
            elif op[0] == "pop":
                n = min(op[1], len(stack))
                if n <= 0:
                    continue
                if pending_bad is not None:
                    force_pop()
                    n = min(n, len(stack))
                    if n <= 0:
                        continue
                if cdcl_like and len(stack) - n > oklen[0]:
                    # THandler's discipline: asserted literals are checked before any of them is retracted
                    n = len(stack) - oklen[0]
                cv.ask("pop %d" % n)
                del stack[len(stack) - n:]
                oklen[0] = min(oklen[0], len(stack))
                evs.append({"e": "pop", "n": n})
    except (SmtError, RuntimeError, KeyError, json.JSONDecodeError) as ex:
        stats["aborted"] = stats.get("aborted", 0) + 1
        stats.setdefault("abort_samples", []).append(repr(ex)[:200])
    rc = cv.close()
    if rc not in (0, None):
        stats["driver_crashes"] = stats.get("driver_crashes", 0) + 1
    return evs, cv.log

def b_tsolver(job):
    rng = random.Random(job["seed"])
    logic = job["logic"]
    tb = Table()
    rd = TermReader(tb)
    setup, atoms = atom_lines(logic, rng, job.get("n_atoms", 6))
    H = [None]
    def hints_for(ids):
        if H[0] is None or H[0][1] != len(rd.decls):
            H[0] = (C.Hints(tb, rd.decl_cmds()), len(rd.decls))
        m = H[0][0].model_for(ids, {})
        return [m] if (m is not None and C.model_small(tb, m)) else []
    stats = {}
    events = []
    logs = []
    exact = logic in EXACT
    nseq = 0
    if job.get("mode") == "tlc":
        seqs = tlc_sequences()["seqs"]
        chosen = rng.sample(seqs, min(job.get("nseq", 40), len(seqs)))
        for sj in chosen:
            ops = []
            for op, t, s in json.loads(sj):
                if op == "assert": ops.append(("assert", t - 1, s))
                elif op == "check": ops.append(("check", True))
                else: ops.append(("pop", t))
            ev, lg = play(logic, setup, atoms, ops, tb, rd, hints_for, stats, exact, rng)
            events += [{"e": "Reset"}] + ev
            logs.append(lg); nseq += 1
    else:
        for _ in range(job.get("nseq", 6)):
            ops = []
            if rng.random() < 0.4:
                ops += [("assert", 0, True), ("assert", 1, True), ("check", True), ("assert", 2, rng.random() < 0.5),
                        ("check", True)] + ([("assert", 3, rng.random() < 0.5), ("check", True)] if rng.random() < 0.5 else [])
            for _ in range(rng.randint(20, 50)):
                x = rng.random()
                if x < 0.5: ops.append(("assert", rng.randrange(len(atoms)), rng.random() < 0.5))
                elif x < 0.8: ops.append(("check", rng.random() < 0.8))
                else: ops.append(("pop", rng.randint(1, 3)))
            ev, lg = play(logic, setup, atoms, ops, tb, rd, hints_for, stats, exact, rng, lazy_declare=rng.random() < 0.3)
            events += [{"e": "Reset"}] + ev
            logs.append(lg); nseq += 1
    tb.true(); tb.false()
    fam = [{"e": "Fam", "tt": tb.recs, "theory": logic}]
    sample = {"builder": "tsolver", "logic": logic, "seed": job["seed"], "mode": job.get("mode", "random"),
              "conversation": logs[0][:60] if logs else [], "stats": {k: v for k, v in stats.items() if not k.endswith("samples")}}
    return {"events": fam + events, "runs": nseq, "sample": sample, "nontrivial": stats.get("checks", 0) > 0,
            "texts": [{"sid": "t%d" % i, "cfg": logic, "kind": "driver", "io": "stdin", "text": "\n".join(lg), "out": "", "status": 0, "sig": 0}
                      for i, lg in enumerate(logs[:5])],
            "stats": dict(stats, answers=[])}

B.BUILDERS["tsolver"] = b_tsolver
