"""Grammar-based generator of small SMT-LIB scripts (with their term tables).

A script is a list of command dicts; terms are ids in a smtlib.Table.  Everything is
driven by a random.Random seeded from VERIF_SEED.
"""
import random
from fractions import Fraction
from smtlib import Table, Signature, BOOL, INT, REAL, arr_sort, quote_sym, show_num

LOGICS = {
    # name: (numeric sort or None, difference-logic?, uf?, arrays?)
    "QF_UF":     (None, False, True, False),
    "QF_BOOL":   (None, False, False, False),   # printed as QF_UF
    "QF_LRA":    (REAL, False, False, False),
    "QF_LIA":    (INT, False, False, False),
    "QF_RDL":    (REAL, True, False, False),
    "QF_IDL":    (INT, True, False, False),
    "QF_UFLRA":  (REAL, False, True, False),
    "QF_UFLIA":  (INT, False, True, False),
    "QF_UFIDL":  (INT, True, True, False),
    "QF_UFRDL":  (REAL, True, True, False),
    "QF_AX":     (None, False, False, True),
    "QF_ALIA":   (INT, False, False, True),
    "QF_AUFLIA": (INT, False, True, True),
}

def logic_name(l):
    return "QF_UF" if l == "QF_BOOL" else l

class Gen:
    def __init__(self, rng, logic, tb=None, nbool=3, nnum=3, nu=3, box=None, maxconst=4):
        self.rng = rng
        self.logic = logic
        self.num, self.dl, self.uf, self.arr = LOGICS[logic]
        self.tb = tb or Table()
        self.sig = Signature()
        self.decls = []           # command dicts
        self.maxconst = maxconst
        self.bools = []
        self.nums = []
        self.us = []
        self.arrs = []
        self.funs = {}            # name -> (argsorts, ret)
        self.boxes = {}           # int var name -> (lo, hi)
        r = rng
        for i in range(nbool):
            self._declare("p%d" % i, (), BOOL); self.bools.append(self.tb.var("p%d" % i, BOOL))
        if self.num:
            for i in range(nnum):
                nm = "xyzwvrstabcd"[i]
                self._declare(nm, (), self.num); self.nums.append(self.tb.var(nm, self.num))
        if self.uf:
            self.decls.append({"c": "declare-sort", "nm": "U"}); self.sig.sorts.add("U")
            for i in range(nu):
                self._declare("u%d" % i, (), "U"); self.us.append(self.tb.var("u%d" % i, "U"))
            self._declare("f", ("U",), "U")
            if r.random() < 0.6:
                self._declare("g", ("U", "U"), "U")
            self._declare("P", ("U",), BOOL)
            if r.random() < 0.35:
                self._declare("bf", (BOOL,), "U")      # Boolean formulas nested in arguments of uninterpreted functions
            if self.num and not self.dl:
                self._declare("h", (self.num,), self.num)
                if r.random() < 0.5:
                    self._declare("k", (self.num,), "U")
        if self.arr:
            isort = self.num or "I"
            esort = self.num or "E"
            if not self.num:
                self.decls.append({"c": "declare-sort", "nm": "I"}); self.sig.sorts.add("I")
                self.decls.append({"c": "declare-sort", "nm": "E"}); self.sig.sorts.add("E")
                self.idx = []
                self.elems = []
                for i in range(2):
                    self._declare("i%d" % i, (), "I"); self.idx.append(self.tb.var("i%d" % i, "I"))
                    self._declare("e%d" % i, (), "E"); self.elems.append(self.tb.var("e%d" % i, "E"))
            self.asort = arr_sort(isort, esort)
            self.isort, self.esort = isort, esort
            for i in range(2):
                self._declare("a%d" % i, (), self.asort); self.arrs.append(self.tb.var("a%d" % i, self.asort))
        if box is None:
            box = self.num == INT and r.random() < 0.6
        if box and self.num == INT:
            for v in self.nums:
                lo = r.randint(-3, 0); hi = lo + r.randint(1, 4)
                self.boxes[self.tb.rec(v)["nm"]] = (lo, hi)

    def _declare(self, nm, args, ret):
        self.sig.funs[nm] = (tuple(args), ret)
        self.funs[nm] = (tuple(args), ret)
        self.decls.append({"c": "declare", "nm": nm, "args": list(args), "ret": ret})

    def box_asserts(self):
        out = []
        for v in self.nums:
            nm = self.tb.rec(v)["nm"]
            if nm in self.boxes:
                lo, hi = self.boxes[nm]
                out.append(self.tb.app("<=", [self.tb.num(lo, INT), v]))
                out.append(self.tb.app("<=", [v, self.tb.num(hi, INT)]))
        return out

    # ---- terms
    def const(self, sort, small=False):
        r = self.rng
        m = 2 if small else self.maxconst
        if sort == INT:
            return self.tb.num(r.randint(-m, m), INT)
        q = Fraction(r.randint(-2 * m, 2 * m), r.choice([1, 1, 1, 2, 2, 3]))
        return self.tb.num(q, REAL)

    def num_term(self, depth=1):
        """a linear term"""
        r, tb = self.rng, self.tb
        S = self.num
        if self.dl:
            return r.choice(self.nums)
        k = r.choice([1, 1, 2, 2, 3])
        vs = r.sample(self.nums, min(k, len(self.nums)))
        parts = []
        for v in vs:
            c = r.choice([1, 1, 1, -1, 2, -2, 3])
            t = v
            if depth > 0 and r.random() < 0.18:
                t = self.ite_num()
            elif depth > 0 and self.uf and "h" in self.funs and r.random() < 0.25:
                t = tb.uf("h", [self.num_term(0)], S)
            elif depth > 0 and S == INT and not self.dl and r.random() < 0.12:
                t = tb.app(r.choice(["div", "mod"]), [v, tb.num(r.choice([2, 3, -2, 4]), INT)])
            elif depth > 0 and self.arr and self.esort == S and r.random() < 0.3:
                t = self.select_term()
            parts.append(t if c == 1 else tb.app("*", [tb.num(c, S), t]))
        if r.random() < 0.3:
            parts.append(self.const(S))
        if len(parts) == 1:
            return parts[0]
        if len(parts) == 2 and r.random() < 0.3:
            return tb.app("-", parts)
        return tb.app("+", parts)

    def ite_num(self):
        r, tb = self.rng, self.tb
        if r.random() < 0.45:
            # nested ite with a value shared between branches (a DAG, not a tree, for the ite elimination)
            v, w = self.num_term(0), self.num_term(0)
            inner = tb.app("ite", [self.atom(0)] + ([w, v] if r.random() < 0.5 else [v, w]))
            return tb.app("ite", [self.atom(0)] + ([v, inner] if r.random() < 0.6 else [inner, v]))
        return tb.app("ite", [self.atom(0), self.num_term(0), self.num_term(0)])

    def u_term(self, depth=2):
        r, tb = self.rng, self.tb
        if depth == 0 or r.random() < 0.4:
            return r.choice(self.us)
        x = r.random()
        if x < 0.5:
            return tb.uf("f", [self.u_term(depth - 1)], "U")
        if x < 0.7 and "g" in self.funs:
            return tb.uf("g", [self.u_term(depth - 1), self.u_term(depth - 1)], "U")
        if x < 0.8 and "k" in self.funs:
            return tb.uf("k", [self.num_term(0)], "U")
        if x < 0.86 and "bf" in self.funs:
            b = r.choice(self.bools)
            arg = r.choice([b, tb.boolc(r.random() < 0.5), tb.app(r.choice(["and", "or"]), [b, r.choice(self.bools)]), tb.app("not", [b])])
            return tb.uf("bf", [arg], "U")
        if x < 0.9:
            if depth >= 2 and r.random() < 0.5:
                v, w = self.u_term(0), self.u_term(depth - 2)
                inner = tb.app("ite", [self.atom(0)] + ([w, v] if r.random() < 0.5 else [v, w]))
                return tb.app("ite", [self.atom(0)] + ([v, inner] if r.random() < 0.6 else [inner, v]))
            return tb.app("ite", [self.atom(0), self.u_term(depth - 1), self.u_term(depth - 1)])
        return r.choice(self.us)

    def index_term(self):
        if self.num:
            r = self.rng
            if r.random() < 0.3:
                return self.tb.num(r.randint(0, 2), INT)
            v = r.choice(self.nums)
            return v if r.random() < 0.7 else self.tb.app("+", [v, self.tb.num(1, INT)])
        return self.rng.choice(self.idx)

    def elem_term(self):
        if self.num:
            return self.num_term(0) if self.rng.random() < 0.5 else self.const(self.num, True)
        return self.rng.choice(self.elems)

    def arr_term(self, depth=2):
        r = self.rng
        if depth == 0 or r.random() < 0.45:
            return r.choice(self.arrs)
        return self.tb.app("store", [self.arr_term(depth - 1), self.index_term(), self.elem_term()])

    def select_term(self):
        return self.tb.app("select", [self.arr_term(1), self.index_term()])

    def atom(self, depth=1):
        r, tb = self.rng, self.tb
        kinds = ["bool"]
        if self.num: kinds += ["num", "num", "num"]
        if self.uf: kinds += ["uf", "uf"]
        if self.arr: kinds += ["arr", "arr"]
        k = r.choice(kinds)
        if k == "bool" or not (self.num or self.uf or self.arr):
            return r.choice(self.bools)
        if k == "num":
            op = r.choice(["<=", "<", ">=", ">", "=", "<=", ">="])
            if self.dl:
                x, y = r.sample(self.nums, 2) if len(self.nums) >= 2 else (self.nums[0], self.nums[0])
                c = self.const(self.num)
                form = r.random()
                if form < 0.6:
                    return tb.app(op, [tb.app("-", [x, y]), c])
                if form < 0.8:
                    return tb.app(op, [x, y])
                return tb.app(op, [x, c])
            if r.random() < 0.08 and len(self.nums) >= 3:
                return tb.app("distinct", list(self.nums[:3]))
            lhs = self.num_term(depth)
            rhs = self.const(self.num) if r.random() < 0.6 else self.num_term(0)
            if r.random() < 0.07:
                return tb.app(op, [lhs, rhs, self.const(self.num)])      # chained comparison
            return tb.app(op, [lhs, rhs])
        if k == "uf":
            x = r.random()
            if x < 0.55:
                return tb.app("=", [self.u_term(), self.u_term()])
            if x < 0.7:
                return tb.app("distinct", [self.u_term(1), self.u_term(1), self.u_term(0)])
            return tb.uf("P", [self.u_term()], BOOL)
        # arrays
        x = r.random()
        if x < 0.35:
            return tb.app("=", [self.arr_term(), self.arr_term()])
        a, b = self.select_term(), self.elem_term()
        if self.num:
            return tb.app(r.choice(["=", "<=", ">="]), [a, b])
        return tb.app("=", [a, b])

    def formula(self, atoms, depth=2):
        r, tb = self.rng, self.tb
        if depth == 0 or r.random() < 0.25:
            a = r.choice(atoms)
            return tb.app("not", [a]) if r.random() < 0.35 else a
        if self.uf and r.random() < 0.1:
            # equality diamonds (or (and x=w w=z) (and x=y y=z)): proper ones, chains that share one end point only,
            # three arms, an arm that is not a chain
            ts = list(self.us) + [tb.uf("f", [u], "U") for u in self.us[:2]]
            x, z, w, y, v, e2 = (r.sample(ts, 5) + [r.choice(ts)])[:6]
            def chain(a, m, b): return tb.app("and", [tb.app("=", [a, m]), tb.app("=", [m, b])])
            kind = r.choice(["proper", "proper", "one-end", "three", "three-bad", "swapped"])
            if kind == "proper":
                arms = [chain(x, w, z), chain(x, y, z)]
            elif kind == "swapped":
                arms = [chain(x, w, z), chain(z, y, x)]
            elif kind == "one-end":
                arms = [chain(x, w, z), chain(x, y, v)]
            elif kind == "three":
                arms = [chain(x, w, z), chain(x, y, z), chain(x, v, z)]
            else:
                arms = [chain(x, w, z), chain(x, y, z), r.choice(atoms)]
            if r.random() < 0.3:
                r.shuffle(arms)
            d = tb.app("or", arms)
            extra = tb.app("not", [tb.app("=", [x, z])])
            return d if r.random() < 0.5 else tb.app("and", [d, extra])
        op = r.choice(["and", "or", "or", "or", "=>", "xor", "=", "ite", "not", "let"])
        if op in ("and", "or"):
            n = r.choice([2, 2, 3])
            return tb.app(op, [self.formula(atoms, depth - 1) for _ in range(n)])
        if op in ("=>", "xor", "="):
            return tb.app(op, [self.formula(atoms, depth - 1), self.formula(atoms, depth - 1)])
        if op == "ite":
            return tb.app("ite", [self.formula(atoms, 0), self.formula(atoms, depth - 1), self.formula(atoms, depth - 1)])
        if op == "not":
            return tb.app("not", [self.formula(atoms, depth - 1)])
        if r.random() < 0.3:
            # parallel let over names that already mean something outside: a swap of two declared constants, or the
            # next-state idiom x := t(x), y := t'(x, y); every bound term is read in the OUTER scope
            if self.num and not self.dl and len(self.nums) >= 2 and r.random() < 0.5:
                a, b = r.sample(self.nums, 2)
                na, nb = tb.rec(a)["nm"], tb.rec(b)["nm"]
                va = r.choice([b, tb.app("+", [a, self.const(self.num, small=True)])])
                vb = r.choice([a, tb.app("+", [a, b])])
                body = tb.app(r.choice(["<=", "<", "="]), [tb.app("-", [a, b]) if r.random() < 0.5 else a, self.const(self.num, small=True)])
                return tb.let([na, nb], [va, vb], tb.app(r.choice(["and", "or"]), [body, self.formula(atoms, depth - 1)]))
            if len(self.bools) >= 2:
                a, b = r.sample(self.bools, 2)
                na, nb = tb.rec(a)["nm"], tb.rec(b)["nm"]
                va = r.choice([b, tb.app("not", [a]), self.formula(atoms, 0)])
                vb = r.choice([a, tb.app("and", [a, b]), tb.app("not", [b])])
                return tb.let([na, nb], [va, vb], tb.app(r.choice(["and", "or", "=>", "xor"]), [a, tb.app("not", [b]) if r.random() < 0.5 else b]))
        # let: bind a Boolean and, when possible, a numeric subterm
        names, vals = ["l0"], [self.formula(atoms, depth - 1)]
        body_atoms = [tb.var("l0", BOOL)]
        if self.num and not self.dl and r.random() < 0.5:
            names.append("l1"); vals.append(self.num_term(0))
            body_atoms.append(tb.app(r.choice(["<=", ">", "="]), [tb.var("l1", self.num), self.const(self.num)]))
        body = tb.app(r.choice(["and", "or"]), [r.choice(body_atoms), self.formula(atoms, depth - 1)]
                      + ([body_atoms[-1]] if len(body_atoms) > 1 else []))
        return tb.let(names, vals, body)

    def atom_pool(self, n):
        pool = []
        for _ in range(n):
            try:
                pool.append(self.atom())
            except Exception:
                pool.append(self.rng.choice(self.bools))
        return pool

# ---------------------------------------------------------------- scripts
def render_cmd(cmd, tb):
    c = cmd["c"]
    if c == "set-logic":
        return "(set-logic %s)" % cmd["logic"]
    if c == "set-option":
        return "(set-option %s %s)" % (cmd["k"], cmd["v"])
    if c == "set-info":
        return "(set-info %s %s)" % (cmd["k"], cmd["v"])
    if c == "declare-sort":
        return "(declare-sort %s 0)" % quote_sym(cmd["nm"])
    if c == "declare":
        if cmd.get("const"):
            return "(declare-const %s %s)" % (quote_sym(cmd["nm"]), cmd["ret"])
        return "(declare-fun %s (%s) %s)" % (quote_sym(cmd["nm"]), " ".join(cmd["args"]), cmd["ret"])
    if c == "define":
        return "(define-fun %s (%s) %s %s)" % (quote_sym(cmd["nm"]),
            " ".join("(%s %s)" % (quote_sym(p), s) for p, s in cmd["params"]), cmd["ret"], tb.show(cmd["b"]))
    if c == "assert":
        names = {t: n for n, t in cmd.get("inner", [])}
        body = tb.show(cmd["t"], dict(names))
        if cmd.get("nm"):
            body = "(! %s :named %s)" % (body, quote_sym(cmd["nm"]))
        return "(assert %s)" % body
    if c in ("push", "pop"):
        return "(%s %d)" % (c, cmd["n"])
    if c in ("check-sat", "get-model", "get-assignment", "get-unsat-core", "get-proof", "exit"):
        return "(%s)" % c
    if c == "get-value":
        return "(get-value (%s))" % " ".join(tb.show(t) for t in cmd["ts"])
    if c == "get-interpolants":
        def grp(g):
            return quote_sym(g[0]) if len(g) == 1 else "(and %s)" % " ".join(quote_sym(n) for n in g)
        return "(get-interpolants %s)" % " ".join(grp(g) for g in cmd["groups"])
    if c == "echo":
        return '(echo "%s")' % cmd["s"]
    if c in ("raw", "bad", "other"):
        return cmd["text"]
    raise ValueError(c)

def render_script(cmds, tb, markers=True):
    out = []
    for k, cmd in enumerate(cmds, 1):
        out.append(render_cmd(cmd, tb))
        if markers:
            out.append('(echo "@@%d")' % k)
    return "\n".join(out) + "\n"

def preamble(g, options=()):
    cmds = [{"c": "set-option", "k": k, "v": v} for k, v in options]
    cmds.append({"c": "set-logic", "logic": logic_name(g.logic)})
    cmds += [dict(d) for d in g.decls]
    return cmds

def interface_history(g, rng, queries=()):
    """theory-combination corner: numeric variables pinned or bounded (strictly, non-strictly, through sums) next to
    numerals, and both used as arguments of uninterpreted functions / array indices whose values are related.
    Whether the script is satisfiable hinges on interface equalities between variables and numerals."""
    tb, S = g.tb, g.num
    x, y = rng.sample(g.nums, 2)
    def num(c): return tb.num(c, S)
    c = rng.randint(-2, 3)
    d = rng.choice([c, c + 1, c - 1, c + 1])
    targets = [(x, c), (tb.app("+", [x, y]), c + d), (x, c)]
    t, tc = rng.choice(targets)
    facts = []
    kind = rng.choice(["eq", "strictpin", "strictlow", "strictup", "low", "strictlow", "strictpin"])
    if kind == "eq":
        facts += [tb.app("<=", [t, num(tc)]), tb.app(">=", [t, num(tc)])]
    elif kind == "strictpin":
        w = 1 if S == INT else rng.choice([1, 1, 2])
        facts += [tb.app("<", [t, num(tc + w)]), tb.app(">", [t, num(tc - 1)])]
    elif kind == "strictlow":
        facts += [tb.app(">", [t, num(tc)])]
    elif kind == "strictup":
        facts += [tb.app("<", [t, num(tc)])]
    else:
        facts += [tb.app(">=", [t, num(tc)])]
    if t != x or rng.random() < 0.5:
        k2 = rng.choice(["eq", "strictpin", "low", "strictlow"])
        if k2 == "eq":
            facts += [tb.app("=", [y, num(d)])]
        elif k2 == "strictpin":
            facts += [tb.app("<", [y, num(d + 1)]), tb.app(">", [y, num(d - 1)])]
        elif k2 == "low":
            facts += [tb.app(">=", [y, num(d)])]
        else:
            facts += [tb.app(">", [y, num(d)])]
    # applications over a variable and over a numeral (or the other variable)
    def wrap(a):
        opts = []
        if "h" in g.funs: opts.append(lambda a: tb.uf("h", [a], S))
        if "k" in g.funs: opts.append(lambda a: tb.uf("k", [a], "U"))
        if "k" in g.funs: opts.append(lambda a: tb.uf("P", [tb.uf("k", [a], "U")], BOOL))
        if g.arr and g.isort == S: opts.append(lambda a: tb.app("select", [g.arrs[0], a]))
        return rng.choice(opts) if opts else None
    rel = []
    for _ in range(rng.choice([1, 1, 2])):
        w = wrap(None)
        if w is None:
            break
        a1 = rng.choice([x, x, y])
        a2 = rng.choice([num(c), num(c), num(d), num(c + 1), y if a1 != y else x])
        l, r = w(a1), w(a2)
        if tb.sort(l) == BOOL:
            rel += [l, tb.app("not", [r])] if rng.random() < 0.5 else [tb.app("not", [l]), r]
        elif tb.sort(l) == S and rng.random() < 0.4:
            rel += [tb.app(rng.choice(["<", ">"]), [l, r])]
        else:
            rel += [tb.app("not", [tb.app("=", [l, r])])]
    cmds = []
    items = facts + rel
    rng.shuffle(items)
    depth = 0
    for i, f in enumerate(items):
        if rng.random() < 0.25:
            cmds.append({"c": "push", "n": 1}); depth += 1
        if rng.random() < 0.2 and len(items) > 2:
            g2 = rng.choice(g.bools)
            f = tb.app("or", [f, tb.app("and", [g2, tb.app("not", [g2])])]) if rng.random() < 0.5 else tb.app("or", [f, f])
        cmds.append({"c": "assert", "t": f, "nm": "", "inner": []})
        if rng.random() < 0.3 or i == len(items) - 1:
            cmds.append({"c": "check-sat"})
            cmds += [dict(q) for q in queries]
    if depth and rng.random() < 0.5:
        cmds.append({"c": "pop", "n": 1})
        cmds.append({"c": "check-sat"})
        cmds += [dict(q) for q in queries]
    return cmds

def guarded_history(g, rng, queries=(), nrows=None):
    """a larger linear system (two-sided bounds on variables and on combinations of two to four variables, built around
    a random point) that is only reached through a decision on a guard: conflicts arise at a positive decision level,
    their explanations become theory clauses, and the simplex needs many pivots (Bland's rule is reached)"""
    tb, S = g.tb, g.num
    vs = list(g.nums)
    gd = g.bools[0]
    def num(c): return tb.num(c, S)
    point = [rng.randint(-6, 6) for _ in vs]
    cons = []
    for v, p_ in zip(vs, point):
        cons.append(tb.app("<=", [num(p_ - rng.randint(0, 4)), v]))
        cons.append(tb.app("<=", [v, num(p_ + rng.randint(0, 4))]))
    for _ in range(nrows or (40 if len(vs) >= 10 else rng.choice([12, 20, 26, 30, 34]))):
        # with ten or more variables the rows are denser (up to six variables): many more pivots per check
        k = rng.randint(2, min(6 if len(vs) >= 10 else 4, len(vs)))
        idx = rng.sample(range(len(vs)), k)
        coefs = [rng.choice([-3, -2, -1, 1, 2, 3]) for _ in idx]
        val = sum(c * point[i] for c, i in zip(coefs, idx))
        t = tb.app("+", [vs[i] if c == 1 else tb.app("*", [num(c), vs[i]]) for c, i in zip(coefs, idx)])
        lo, hi = val - rng.randint(0, 3), val + rng.randint(0, 3)
        if rng.random() < 0.15:
            lo += rng.randint(0, 2)
        cons.append(tb.app("<=", [num(lo), t]))
        cons.append(tb.app("<=", [t, num(hi)]))
    if len(vs) >= 10 or rng.random() < 0.5:
        rng.shuffle(cons)       # bounds on variables and on rows interleaved: the solver's variable order changes with it
    cmds = [{"c": "assert", "t": tb.app("or", [tb.app("not", [gd]), c_]), "nm": "", "inner": []} for c_ in cons]
    other = vs[0]
    cmds.append({"c": "assert", "t": tb.app("or", [gd, tb.app("<=", [num(1), other])]), "nm": "", "inner": []})
    cmds.append({"c": "assert", "t": tb.app("or", [gd, tb.app("<=", [other, num(0)])]), "nm": "", "inner": []})
    if rng.random() < 0.3:
        k = rng.randrange(len(cmds))
        cmds.insert(k, {"c": "check-sat"})
    cmds.append({"c": "check-sat"}); cmds += [dict(q) for q in queries]
    return cmds

def diamond_history(g, rng, queries=()):
    """QF_UF: disjunctions of equality chains (the shape the preprocessor mines for transitivity facts) of every kind -
    proper diamonds, chains that share one end point only, three arms, an arm that is not a chain, either orientation -
    together with equalities and disequalities between the end points"""
    tb = g.tb
    ts = list(g.us) + [tb.uf("f", [u], "U") for u in g.us[:2]]
    def eq(a, b): return tb.app("=", [a, b])
    def chain(a, m, b): return tb.app("and", [eq(a, m), eq(m, b)])
    cmds, depth = [], 0
    for _ in range(rng.randint(1, 2)):
        x, z, w, y, v = rng.sample(ts, 5)
        kind = rng.choice(["proper", "one-end", "one-end", "three", "three-bad", "three-bad", "swapped", "mixed-ends"])
        arms = {"proper": [chain(x, w, z), chain(x, y, z)], "swapped": [chain(x, w, z), chain(z, y, x)],
                "one-end": [chain(x, w, z), chain(x, y, v)], "mixed-ends": [chain(x, w, z), chain(v, y, z)],
                "three": [chain(x, w, z), chain(x, y, z), chain(x, v, z)],
                "three-bad": [chain(x, w, z), chain(x, y, z), rng.choice([eq(w, y), tb.app("not", [eq(x, v)]), rng.choice(g.bools)])]}[kind]
        if rng.random() < 0.3:
            rng.shuffle(arms)
        facts = [tb.app("or", arms)]
        facts += rng.sample([tb.app("not", [eq(x, z)]), tb.app("not", [eq(x, z)]), eq(x, z), tb.app("not", [eq(x, v)]), tb.app("not", [eq(w, y)]),
                             tb.app("not", [eq(tb.uf("f", [x], "U"), tb.uf("f", [z], "U"))])], rng.randint(1, 3))
        if rng.random() < 0.5:
            rng.shuffle(facts)
        for f in facts:
            if rng.random() < 0.2:
                cmds.append({"c": "push", "n": 1}); depth += 1
            cmds.append({"c": "assert", "t": f, "nm": "", "inner": []})
            if rng.random() < 0.3:
                cmds.append({"c": "check-sat"}); cmds += [dict(q) for q in queries]
        cmds.append({"c": "check-sat"}); cmds += [dict(q) for q in queries]
        if depth and rng.random() < 0.6:
            cmds.append({"c": "pop", "n": 1}); depth -= 1
            cmds.append({"c": "check-sat"}); cmds += [dict(q) for q in queries]
    return cmds

def sums_history(g, rng, queries=()):
    """linear arithmetic without bounds on single variables: four to six atoms, each over two or three variables; the
    simplex has to pivot several bound-free variables into the basis, and the model is read back from rows that
    refer to each other"""
    tb, S = g.tb, g.num
    vs = list(g.nums)
    def num(c): return tb.num(c, S)
    atoms = []
    for _ in range(rng.randint(4, 6)):
        k = rng.choice([2, 2, 3])
        parts = []
        for v in rng.sample(vs, min(k, len(vs))):
            c = rng.choice([1, 1, -1, -1, 2, -2, 3])
            parts.append(v if c == 1 else tb.app("*", [num(c), v]))
        t = tb.app("+", parts)
        atoms.append(tb.app(rng.choice(["<=", ">=", "<=", ">=", "=", "<", ">"]), [t, num(rng.randint(-9, 16))]))
    cmds = []
    depth = 0
    for i, a in enumerate(atoms):
        f = a
        if rng.random() < 0.15:
            f = tb.app("or", [a, rng.choice(atoms)])
        if rng.random() < 0.2:
            cmds.append({"c": "push", "n": 1}); depth += 1
        cmds.append({"c": "assert", "t": f, "nm": "", "inner": []})
        if rng.random() < 0.35:
            cmds.append({"c": "check-sat"}); cmds += [dict(q) for q in queries]
    cmds.append({"c": "check-sat"}); cmds += [dict(q) for q in queries]
    if depth:
        cmds.append({"c": "pop", "n": 1}); cmds.append({"c": "check-sat"}); cmds += [dict(q) for q in queries]
    return cmds

def eqsys_history(g, rng, queries=()):
    """systems of top-level equalities over a few plain variables and several uninterpreted terms (h(x), h(h(y)), ...),
    all shared between the equalities: the preprocessor solves each equality for one of its terms and composes the
    substitutions, so which term is chosen as the key of each equality matters"""
    tb, S = g.tb, g.num
    vs = list(g.nums)
    def num(c): return tb.num(c, S)
    if "h" not in g.funs:
        g._declare("h", (S,), S)
    if "h2" not in g.funs:
        g._declare("h2", (S,), S)
    opaque = [tb.uf(f, [v], S) for f in ("h", "h2") for v in vs[:2]]
    if rng.random() < 0.3:
        opaque.append(tb.uf("h", [tb.uf("h2", [vs[0]], S)], S))
    rng.shuffle(opaque)
    opaque = opaque[:rng.randint(2, 4)]
    eqs = []
    for _ in range(rng.randint(2, 4)):
        ts = rng.sample(vs, rng.choice([1, 1, 2])) + rng.sample(opaque, rng.randint(2, min(3, len(opaque))))
        rng.shuffle(ts)
        k = rng.randint(1, len(ts) - 1)
        def side(xs):
            parts = []
            for t in xs:
                c = rng.choice([1, 1, 1, 2, -1, 3])
                parts.append(t if c == 1 else tb.app("*", [num(c), t]))
            if rng.random() < 0.2:
                parts.append(num(rng.randint(-3, 3)))
            return parts[0] if len(parts) == 1 else tb.app("+", parts)
        eqs.append(tb.app("=", [side(ts[:k]), side(ts[k:])]))
    cmds = []
    depth = 0
    if rng.random() < 0.3:
        cmds.append({"c": "push", "n": 1}); depth += 1
    for e in eqs:
        cmds.append({"c": "assert", "t": e, "nm": "", "inner": []})
    if rng.random() < 0.5:
        a, b = rng.sample(vs + opaque, 2)
        cmds.append({"c": "assert", "t": tb.app(rng.choice(["<=", "<", "distinct"]), [a, b]), "nm": "", "inner": []})
    cmds.append({"c": "check-sat"}); cmds += [dict(q) for q in queries]
    if depth:
        cmds.append({"c": "pop", "n": 1}); cmds.append({"c": "check-sat"}); cmds += [dict(q) for q in queries]
    return cmds

def tower_history(g, rng, queries=()):
    """two towers x_i = g(x_{i-1}, x_{i-1}) over u0 and y_i = g(y_{i-1}, y_{i-1}) over u1, 30 to 60 levels high (written
    with let, so the script is short although the terms are huge as trees), the disequality of their tops, and
    u0 = u1 reachable only through a decision: congruence closure merges the towers level by level and the conflict
    has a one-literal explanation that crosses every level"""
    tb = g.tb
    if rng.random() < 0.35:
        # the Boolean counterpart: L_i = (and l_i L_{i-1} R_{i-1}), R_i = (and r_i L_{i-1} R_{i-1}), and the negation of
        # their conjunction: 2n+2 variables, 2n shared conjunctions, 3^n paths
        n = rng.randint(24, 40)
        ls, rs = [], []
        for i in range(n + 1):
            for pref, acc in (("dl", ls), ("dr", rs)):
                nm = "%s%d" % (pref, i)
                if nm not in g.funs:
                    g._declare(nm, (), BOOL)
                acc.append(tb.var(nm, BOOL))
        chain = [(["DL0", "DR0"], [ls[0], rs[0]])]
        for i in range(1, n + 1):
            pl, pr = tb.var("DL%d" % (i - 1), BOOL), tb.var("DR%d" % (i - 1), BOOL)
            chain.append((["DL%d" % i, "DR%d" % i], [tb.app("and", [ls[i], pl, pr]), tb.app("and", [rs[i], pl, pr])]))
        top = tb.app("and", [tb.var("DL%d" % n, BOOL), tb.var("DR%d" % n, BOOL)])
        body = tb.app("not", [top]) if rng.random() < 0.7 else top
        for names, vals in reversed(chain):
            body = tb.let(names, vals, body)
        cmds = [{"c": "assert", "t": body, "nm": "", "inner": []}, {"c": "check-sat"}]
        if rng.random() < 0.4:
            cmds = [{"c": "push", "n": 1}] + cmds + [{"c": "pop", "n": 1}, {"c": "check-sat"}]
        return cmds
    if "g" not in g.funs:
        g._declare("g", ("U", "U"), "U")
    a, b = g.us[0], g.us[1]
    q = g.bools[0]
    n = rng.randint(30, 60)
    def tower(base, pref, body):
        # innermost level last: build the chain of (name, value) first
        prev, chain = base, []
        for i in range(1, n + 1):
            nm = "%s%d" % (pref, i)
            chain.append((nm, tb.uf("g", [prev, prev], "U")))
            prev = tb.var(nm, "U")
        return prev, chain
    xt, xc = tower(a, "tw", None)
    yt, yc = tower(b, "tv", None)
    body = tb.app("not", [tb.app("=", [xt, yt])])
    for nm, val in reversed(xc + yc):
        body = tb.let([nm], [val], body)
    eq = tb.app("=", [a, b])
    cmds = [{"c": "assert", "t": tb.app("or", [eq, q]), "nm": "", "inner": []}]
    sat = rng.random() < 0.4
    if not sat:
        cmds.append({"c": "assert", "t": tb.app("or", [eq, tb.app("not", [q])]), "nm": "", "inner": []})
    if rng.random() < 0.3:
        cmds.append({"c": "push", "n": 1})
    cmds.append({"c": "assert", "t": body, "nm": "", "inner": []})
    cmds.append({"c": "check-sat"}); cmds += [dict(x) for x in queries]
    if cmds[-3 - len(queries)]["c"] == "push" if len(cmds) >= 3 + len(queries) else False:
        cmds.append({"c": "pop", "n": 1}); cmds.append({"c": "check-sat"})
    return cmds

def reenter_history(g, rng, queries=()):
    """a level that is left and entered again: [F0 | A | C] check, pop 2, push, B, C again, check - the re-entered level
    ends with the formula that was last on the stack before, at the same position, and the new formula B is what makes
    the difference (in UF + arithmetic logics: B equates two variables that F0 tells apart through a function)"""
    tb, S = g.tb, g.num
    def num(c): return tb.num(c, S)
    x, y, z = g.nums[:3]
    if g.uf and "h" not in g.funs:
        g._declare("h", (S,), S)
    if g.uf:
        hx, hy = tb.uf("h", [x], S), tb.uf("h", [y], S)
        f0 = rng.choice([tb.app("not", [tb.app("=", [hx, hy])]), tb.app("<", [hx, hy]),
                         tb.app("and", [tb.app("=", [hx, num(0)]), tb.app("not", [tb.app("=", [hy, num(0)])])])])
        b = rng.choice([tb.app("and", [tb.app("<=", [x, y]), tb.app("<=", [y, x])]), tb.app("=", [x, y]),
                        tb.app("and", [tb.app("=", [x, num(1)]), tb.app("=", [y, num(1)])])])
    else:
        f0 = tb.app("<", [x, y])
        b = rng.choice([tb.app("<=", [y, x]), tb.app("=", [x, y])])
    a = tb.app(rng.choice([">", ">=", "<"]), [z, num(rng.randint(-2, 2))])
    c = tb.app(rng.choice(["<", "<=", ">"]), [z, num(rng.randint(3, 9))])
    def A(t): return {"c": "assert", "t": t, "nm": "", "inner": []}
    Q = [dict(q) for q in queries]
    cmds = [A(f0)]
    if rng.random() < 0.3:
        cmds.append({"c": "check-sat"}); cmds += Q
    two = rng.random() < 0.7
    cmds += [{"c": "push", "n": 1}, A(a)]
    if two:
        cmds += [{"c": "push", "n": 1}]
    cmds += [A(c), {"c": "check-sat"}] + Q
    cmds += [{"c": "pop", "n": 2 if two else 1}, {"c": "push", "n": 1}]
    order = rng.choice(["bc", "bc", "bc", "cb", "b"])
    for ch in order:
        cmds.append(A(b if ch == "b" else c))
    cmds += [{"c": "check-sat"}] + Q
    if rng.random() < 0.4:
        cmds += [{"c": "pop", "n": 1}, {"c": "check-sat"}] + Q
    return cmds

def dlgraph_history(g, rng, queries=(), boolean=True):
    """difference-constraint graphs: several paths of different weight between the same vertices (diamonds), zero-weight
    cycles, and a negated bound whose value sits at, just below or just above the shortest path, or between the light and
    the heavy path; asserted in random order, some under Boolean structure, with checks in between"""
    tb, S = g.tb, g.num
    vs = list(g.nums)
    rng.shuffle(vs)
    def num(c): return tb.num(c, S)
    def le(u, v, c):
        return tb.app("<=", [tb.app("-", [u, v]), num(c)])
    edges = {}
    def add(u, v, c):
        if u != v and (u, v) not in edges:
            edges[(u, v)] = c
    # a light path through all vertices and heavy shortcuts across it
    for a, b in zip(vs, vs[1:]):
        add(a, b, rng.choice([0, 1, 1, 2, -1]))
    for _ in range(rng.randint(1, 3)):
        i, j = sorted(rng.sample(range(len(vs)), 2))
        if j - i >= 2:
            add(vs[i], vs[j], rng.choice([5, 10, 7, 3]))
    if S == INT and rng.random() < 0.12:
        # weights beyond the 53 bits of a double (the bounds stay exact integers)
        i = rng.randrange(len(vs) - 1)
        edges[(vs[i], vs[i + 1])] += 2**53 + rng.randint(0, 3)
    if rng.random() < 0.5:              # a zero-weight cycle
        i = rng.randrange(len(vs) - 1)
        c = edges[(vs[i], vs[i + 1])]
        add(vs[i + 1], vs[i], -c)
    for _ in range(rng.randint(0, 2)):
        a, b = rng.sample(vs, 2)
        add(a, b, rng.choice([0, 1, 2, 4, 10]))
    # shortest paths (Bellman-Ford; the graph may have a negative cycle, then anything goes)
    INF = 10**6
    dist = {(a, b): (0 if a == b else INF) for a in vs for b in vs}
    for (a, b), c in edges.items():
        dist[(a, b)] = min(dist[(a, b)], c)
    for k in vs:
        for a in vs:
            for b in vs:
                if dist[(a, k)] + dist[(k, b)] < dist[(a, b)]:
                    dist[(a, b)] = dist[(a, k)] + dist[(k, b)]
    facts = [le(a, b, c) for (a, b), c in edges.items()]
    rng.shuffle(facts)
    late = None
    if len(vs) >= 5 and rng.random() < 0.6:
        # the skeleton r -> s -> p -> m -> t with a heavy shortcut s -> m: light edge of the diamond first, heavy one
        # second, the edge into the diamond last
        r_, s_, p_, m_, t_ = vs[:5]
        heavy = rng.choice([3, 5, 10])
        edges[(s_, m_)] = max(edges.get((s_, m_), heavy), edges[(s_, p_)] + edges[(p_, m_)] + 1)
        skeleton = [le(s_, p_, edges[(s_, p_)]), le(s_, m_, edges[(s_, m_)]), le(p_, m_, edges[(p_, m_)]), le(m_, t_, edges[(m_, t_)])]
        if rng.random() < 0.5:
            skeleton[2], skeleton[3] = skeleton[3], skeleton[2]
        late = le(r_, s_, edges[(r_, s_)])
        if rng.random() < 0.7:
            # only the skeleton: other edges open routes around the diamond
            for key in [k for k in edges if k not in ((s_, p_), (s_, m_), (p_, m_), (m_, t_), (r_, s_))]:
                del edges[key]
        rest = [le(a, b, c) for (a, b), c in edges.items()]
        rest = [f for f in rest if f not in skeleton and f != late]
        rng.shuffle(rest)
        k_ = rng.randint(0, len(rest))
        facts = rest[:k_] + skeleton + rest[k_:] + [late]
    elif rng.random() < 0.6:
        # one edge of the light path arrives after everything behind it: the solver's search for consequences starts at
        # the new edge and runs through the already present diamonds
        i = rng.randrange(0, max(1, len(vs) - 2))
        late = le(vs[i], vs[i + 1], edges[(vs[i], vs[i + 1])])
        facts = [f for f in facts if f != late] + [late]
    dist = {(a, b): (0 if a == b else INF) for a in vs for b in vs}
    for (a, b), c in edges.items():
        dist[(a, b)] = min(dist[(a, b)], c)
    for k in vs:
        for a in vs:
            for b in vs:
                if dist[(a, k)] + dist[(k, b)] < dist[(a, b)]:
                    dist[(a, b)] = dist[(a, k)] + dist[(k, b)]
    reach = [(a, b) for a in vs for b in vs if a != b and dist[(a, b)] < INF]
    goals = []
    for _ in range(rng.randint(1, 3)):
        if not reach:
            break
        a, b = rng.choice(reach)
        d = dist[(a, b)]
        k = d + rng.choice([0, -1, 1, 2, 3, -2])
        goals.append(tb.app("not", [le(a, b, k)]) if rng.random() < 0.7 else tb.app(">", [tb.app("-", [a, b]), num(k)]))
    if late is not None and reach:
        # a bound between the two ends of the path through the late edge
        i = next(k for k in range(len(vs) - 1) if le(vs[k], vs[k + 1], edges[(vs[k], vs[k + 1])]) == late)
        far = [b for b in vs[i + 2:] if dist[(vs[i], b)] < INF]
        if far:
            b = far[-1] if rng.random() < 0.7 else rng.choice(far)      # mostly the far end: a vertex behind the diamond
            d = dist[(vs[i], b)]
            goals.append(tb.app("not", [le(vs[i], b, d + rng.choice([0, 1, 2, 3]))]))
    cmds = []
    depth = 0
    bools = list(g.bools)
    items = facts + goals
    if late is None and rng.random() < 0.6:
        rng.shuffle(items)
    for i, f in enumerate(items):
        if boolean and rng.random() < 0.25 and bools:
            p_ = rng.choice(bools)
            x = rng.random()
            if x < 0.5:
                cmds.append({"c": "assert", "t": tb.app("or", [tb.app("not", [f]) if f in facts and rng.random() < 0.3 else f, p_]), "nm": "", "inner": []})
                cmds.append({"c": "assert", "t": tb.app("or", [f, tb.app("not", [p_])]), "nm": "", "inner": []})
            else:
                cmds.append({"c": "assert", "t": tb.app("or", [f, p_]), "nm": "", "inner": []})
                cmds.append({"c": "assert", "t": tb.app("not", [p_]), "nm": "", "inner": []})
        else:
            cmds.append({"c": "assert", "t": f, "nm": "", "inner": []})
        if rng.random() < 0.15:
            cmds.append({"c": "push", "n": 1}); depth += 1
        if rng.random() < 0.2:
            cmds.append({"c": "check-sat"}); cmds += [dict(q) for q in queries]
        if depth and rng.random() < 0.1:
            cmds.append({"c": "pop", "n": 1}); depth -= 1
    cmds.append({"c": "check-sat"}); cmds += [dict(q) for q in queries]
    if depth:
        cmds.append({"c": "pop", "n": 1})
        cmds.append({"c": "check-sat"}); cmds += [dict(q) for q in queries]
    return cmds

def random_history(g, rng, n_assert=5, p_named=0.0, queries=(), max_depth=3, define_funs=True,
                   final_check=True, n_atoms=5, fdepth=2, min_checks=1, p_define=None):
    """body of an incremental script: asserts, push/pop, check-sat and queries after each check"""
    tb = g.tb
    cmds = []
    atoms = g.atom_pool(n_atoms)
    depth = 0
    nname = 0
    checks = 0
    for b in g.box_asserts():
        cmds.append({"c": "assert", "t": b, "nm": "", "inner": []})
    if define_funs and g.num and not g.dl and rng.random() < (p_define or 0.35):
        a = tb.var("a", g.num)
        body = tb.app("+", [tb.app("*", [tb.num(2, g.num), a]), tb.num(1, g.num)])
        cmds.append({"c": "define", "nm": "dbl", "params": [("a", g.num)], "ret": g.num, "b": body})
        g.sig.defs["dbl"] = ([("a", g.num)], body, g.num)
        v = rng.choice(g.nums)
        atoms.append(tb.app(rng.choice(["<=", ">=", "="]), [tb.uf("dbl", [v], g.num), g.const(g.num)]))
    if define_funs and rng.random() < (p_define or 0.25) and len(g.bools) >= 2:
        body = tb.app("xor", [g.bools[0], g.bools[1]])
        cmds.append({"c": "define", "nm": "bx", "params": [], "ret": BOOL, "b": body})
        g.sig.defs["bx"] = ([], body, BOOL)
        atoms.append(tb.var("bx", BOOL))
    steps = 0
    asserted = 0
    seen_f = set()
    while asserted < n_assert and steps < 40:
        steps += 1
        x = rng.random()
        if x < 0.55:
            f = g.formula(atoms, fdepth)
            for _ in range(6):
                if f not in seen_f:
                    break
                f = g.formula(atoms, fdepth)
            seen_f.add(f)
            nm = ""
            if rng.random() < p_named:
                nname += 1
                nm = "n%d" % nname
            cmds.append({"c": "assert", "t": f, "nm": nm, "inner": []})
            asserted += 1
        elif x < 0.70 and depth < max_depth:
            n = 1 if rng.random() < 0.85 else 2
            cmds.append({"c": "push", "n": n}); depth += n
        elif x < 0.80 and depth > 0:
            n = 1 if rng.random() < 0.8 else min(depth, 2)
            cmds.append({"c": "pop", "n": n}); depth -= n
        elif x < 1.0 and asserted > 0:
            cmds.append({"c": "check-sat"}); checks += 1
            for q in queries:
                cmds.append(dict(q))
    if final_check or checks < min_checks:
        cmds.append({"c": "check-sat"})
        for q in queries:
            cmds.append(dict(q))
    return cmds
