"""Behaviours of spec/Names.tla executed on the real TermNames class (C21)."""
import os, json, random, subprocess
import core as C
import builders as B
import tlc as T

DRIVER = os.environ.get("NAMES_DRIVER") or os.path.join(C.BUILD, "drivers", "rel", "names_driver")
_cache = {}

def spec_behaviours(cfg):
    """every complete behaviour of MC_Names under the given emitting configuration (cached per process and on disk)"""
    if cfg in _cache:
        return _cache[cfg]
    import plans
    h = plans.spec_hash(None)
    cp = os.path.join(C.BUILD, "mc_cache", "names_%s_%s.json" % (cfg, h))
    if os.path.exists(cp):
        seqs = json.load(open(cp))
    else:
        r = T.run_tlc("MC_Names", cfg, workers=1, timeout=900, xmx="4g")
        seen, seqs = set(), []
        for line in r["out"].split("\n"):
            line = line.strip().strip('"')
            if line.startswith("@@SEQ "):
                txt = line[6:].replace('\\"', '"')
                if txt not in seen:
                    seen.add(txt)
                    seqs.append(json.loads(txt))
        os.makedirs(os.path.dirname(cp), exist_ok=True)
        tmp = cp + ".%d" % os.getpid()
        json.dump(seqs, open(tmp, "w"))
        os.replace(tmp, cp)
    _cache[cfg] = seqs
    return seqs

def random_behaviour(rng, n, names, terms):
    out, depth = [], 0
    for _ in range(n):
        x = rng.random()
        if x < 0.55:
            out.append({"op": "ins", "n": rng.choice(names), "t": rng.choice(terms)})
        elif x < 0.8 and depth < 4:
            out.append({"op": "push", "n": "", "t": 0}); depth += 1
        elif depth > 0:
            out.append({"op": "pop", "n": "", "t": 0}); depth -= 1
    return out

def b_namesdrv(job):
    rng = random.Random(job["seed"])
    glob = bool(job.get("globaldecl", False))
    if job.get("source") == "spec":
        allseqs = spec_behaviours(job.get("cfg", "MC_Names_emit"))
        k, nparts = job["part"], job["parts"]
        seqs = allseqs[k::nparts]
    else:
        names = ["a", "b", "c", "d", "e"][:job.get("nnames", 4)]
        seqs = [random_behaviour(rng, rng.randint(8, 24), names, [1, 2, 3]) for _ in range(job.get("count", 40))]
    p = subprocess.Popen([DRIVER], stdin=subprocess.PIPE, stdout=subprocess.PIPE, stderr=subprocess.PIPE)
    lines = []
    evs = []
    for s in seqs:
        lines.append("reset %d" % (1 if glob else 0)); evs.append({"e": "reset", "global": glob})
        depth = 0
        for o in s:
            if o["op"] == "ins":
                lines.append("ins %s %d" % (o["n"], o["t"])); evs.append({"e": "ins", "n": o["n"], "t": o["t"]})
            elif o["op"] == "push":
                lines.append("push"); evs.append({"e": "push"}); depth += 1
            else:
                if depth == 0 and not glob:
                    continue
                lines.append("pop"); evs.append({"e": "pop"}); depth -= 1
    out, err = p.communicate(("\n".join(lines) + "\n").encode(), timeout=120)
    outs = [json.loads(x) for x in out.decode().split("\n") if x.strip()]
    if len(outs) != len(evs):
        return {"error": "names_driver answered %d of %d lines (status %s): %s" % (len(outs), len(evs), p.returncode, err.decode()[-300:])}
    for e, o in zip(evs, outs):
        e.update({"res": o["res"], "pairs": o["pairs"], "n2t": o["n2t"], "t2n": o["t2n"]})
    text = "\n".join(lines[:200])
    sample = {"builder": "namesdrv", "source": job.get("source", "random"), "global": glob, "behaviours": len(seqs),
              "script": text[:600]}
    return {"events": evs, "runs": len(seqs), "sample": sample, "nontrivial": len(seqs) > 0,
            "texts": [{"sid": "names", "cfg": "global" if glob else "scoped", "kind": "driver", "io": "driver", "text": "\n".join(lines),
                       "out": out.decode()[:4000], "status": p.returncode, "sig": 0}],
            "stats": {"behaviours": len(seqs), "operations": len(evs)}}

B.BUILDERS["namesdrv"] = b_namesdrv
