"""Regenerates the table of section 16 of DESIGN.md from seeded/*/meta.json and seeded/*/runs.log."""
import os, json, re, glob
VERIF = os.path.dirname(os.path.dirname(os.path.abspath(__file__)))
rows = []
for d in sorted(glob.glob(os.path.join(VERIF, "seeded", "M*"))):
    m = json.load(open(os.path.join(d, "meta.json")))
    runs = []
    lp = os.path.join(d, "runs.log")
    if os.path.exists(lp):
        for line in open(lp):
            x = re.match(r"(\S+) \S+ (C\d+) seed=(\d+) tier=(\w+) rc=(\d+) viol=(\d+)", line)
            if x:
                runs.append((x.group(1), x.group(2), int(x.group(5)), int(x.group(6))))
    last = {}
    for ts, c, rc, n in runs:
        last[c] = (rc, n, ts)
    first_miss = sorted(set(c for ts, c, rc, n in runs if rc == 0))
    earlier = [c for c in first_miss if c in last and last[c][0] == 1]
    det = ["%s (%d)" % (c, n) for c, (rc, n, _) in sorted(last.items()) if rc == 1]
    miss = [c for c, (rc, n, _) in sorted(last.items()) if rc == 0]
    earlier = [c for c in first_miss if c in last and last[c][0] == 1]
    # keep meta.json in step with runs.log
    m["detected_by"] = ["%s quick, seed 1: %d violation(s) (%s)" % (c, n, ts) for c, (rc, n, ts) in sorted(last.items()) if rc == 1]
    m["not_detected_by"] = ["%s quick, seed 1 (%s)" % (c, ts) for c, (rc, n, ts) in sorted(last.items()) if rc == 0]
    m["detected_only_after_strengthening"] = earlier
    json.dump(m, open(os.path.join(d, "meta.json"), "w"), indent=1)
    rows.append((m["id"], m["breaks_property"], m["what"].split(":")[0][:60], ", ".join(det) or "-", ", ".join(miss) or "-",
                 ", ".join(earlier) or "-"))
out = ["| change | breaks | where | detected by (violations, latest quick run, seed 1) | not detected by | detected only after strengthening |",
       "|---|---|---|---|---|---|"]
for r in rows:
    out.append("| %s | %s | %s | %s | %s | %s |" % r)
table = "\n".join(out)
p = os.path.join(VERIF, "DESIGN.md")
s = open(p).read()
a, b = "<!-- seeded-table-begin -->", "<!-- seeded-table-end -->"
if a in s:
    s = s[:s.index(a) + len(a)] + "\n" + table + "\n" + s[s.index(b):]
    open(p, "w").write(s)
print(table)
