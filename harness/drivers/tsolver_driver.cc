// tsolver_driver: drives the theory solvers of a logic through TSolverHandler (the object THandler
// forwards to) with declare / assert / backtrack / check sequences given on stdin (C22, C11).
//   logic <name>
//   sort|arrsort|fun|var|num|mk ...  build terms (as terms_driver; arrsort <name> <index sort> <element sort>)
//   atom <id>                    declare the atom of term <id>
//   assert <id> <0|1>            assert the atom with a polarity (one backtrack point per literal)
//   check <0|1>                  incomplete / complete check
//   pop <n>                      retract the last n literals
//   deduce                       drain the deductions of the solvers
// Every line is answered by one JSON object.
#ifndef OPENSMT_VERIF_TRACE
#define OPENSMT_VERIF_TRACE
#endif
// the solver schedule of TSolverHandler is private (THandler is its friend); the driver plays THandler's role
#define private public
#include <tsolvers/TSolverHandler.h>
#undef private
#include <api/MainSolver.h>
#include <logics/ArithLogic.h>
#include <logics/LogicFactory.h>
#include <logics/Theory.h>
#include <logics/VerifTraceTerms.h>
#include <tsolvers/TSolverHandler.h>

#include <iostream>
#include <map>
#include <memory>
#include <sstream>
#include <string>

using namespace opensmt;

static SRef sortByName(Logic & logic, std::map<std::string, SRef> & sorts, std::string const & name) {
    auto it = sorts.find(name);
    if (it != sorts.end()) { return it->second; }
    throw std::runtime_error("unknown sort " + name);
}

int main() {
    std::unique_ptr<Logic> logicPtr;
    SMTConfig config;
    std::unique_ptr<Theory> theory;
    std::map<std::string, SRef> sorts;
    std::map<std::string, SymRef> funs;
    std::map<long, PTRef> terms;
    ArithLogic * alogic = nullptr;
    std::string line;
    while (std::getline(std::cin, line)) {
        std::istringstream is(line);
        std::string cmd;
        is >> cmd;
        long id = -1;
        try {
            if (cmd == "logic") {
                std::string name; is >> name;
                Logic_t lt = getLogicFromString(name);
                logicPtr.reset(LogicFactory::getInstance(lt));
                alogic = dynamic_cast<ArithLogic *>(logicPtr.get());
                sorts["Bool"] = logicPtr->getSort_bool();
                if (alogic) {
                    if (alogic->hasIntegers()) sorts["Int"] = alogic->getSort_int();
                    if (alogic->hasReals()) sorts["Real"] = alogic->getSort_real();
                }
                theory = MainSolver::createTheory(*logicPtr, config);
                std::cout << "{\"op\":\"logic\",\"ok\":true}" << std::endl;
                continue;
            }
            Logic & logic = *logicPtr;
            TSolverHandler & tsh = theory->getTSolverHandler();
            if (cmd == "sort") {
                std::string name; is >> name;
                sorts[name] = logic.declareUninterpretedSort(name);
                std::cout << "{\"op\":\"sort\"}" << std::endl;
                continue;
            }
            if (cmd == "arrsort") {
                std::string name, idx, elem; is >> name >> idx >> elem;
                sorts[name] = logic.getArraySort(sortByName(logic, sorts, idx), sortByName(logic, sorts, elem));
                std::cout << "{\"op\":\"sort\"}" << std::endl;
                continue;
            }
            if (cmd == "fun") {
                std::string name, ret; is >> name >> ret;
                vec<SRef> args; std::string a;
                while (is >> a) { args.push(sortByName(logic, sorts, a)); }
                funs[name] = logic.declareFun(name, sortByName(logic, sorts, ret), args);
                std::cout << "{\"op\":\"fun\"}" << std::endl;
                continue;
            }
            if (cmd == "var" or cmd == "num" or cmd == "mk") {
                is >> id;
                PTRef res = PTRef_Undef;
                if (cmd == "var") {
                    std::string s, name; is >> s >> name;
                    res = logic.mkVar(sortByName(logic, sorts, s), name.c_str());
                } else if (cmd == "num") {
                    std::string s, lit; is >> s >> lit;
                    res = logic.mkConst(sortByName(logic, sorts, s), lit.c_str());
                } else {
                    std::string op; is >> op;
                    vec<PTRef> args; long a;
                    while (is >> a) { args.push(terms.at(a)); }
                    if (op == "=") res = logic.mkEq(std::move(args));
                    else if (op == "not") res = logic.mkNot(args[0]);
                    else if (op == "distinct") res = logic.mkDistinct(std::move(args));
                    else if (op == "select") res = logic.mkSelect(std::move(args));
                    else if (op == "store") res = logic.mkStore(std::move(args));
                    else if (op.rfind("uf:", 0) == 0) res = logic.mkUninterpFun(funs.at(op.substr(3)), std::move(args));
                    else if (not alogic) throw std::runtime_error("no arithmetic in this logic");
                    else if (op == "+") res = alogic->mkPlus(std::move(args));
                    else if (op == "-") res = args.size() == 1 ? alogic->mkNeg(args[0]) : alogic->mkMinus(std::move(args));
                    else if (op == "*") res = alogic->mkTimes(std::move(args));
                    else if (op == "<=") res = alogic->mkLeq(args);
                    else if (op == "<") res = alogic->mkLt(args);
                    else if (op == ">=") res = alogic->mkGeq(args);
                    else if (op == ">") res = alogic->mkGt(args);
                    else throw std::runtime_error("unknown op " + op);
                }
                terms[id] = res;
                std::cout << "{\"op\":\"term\",\"i\":" << id << ",\"t\":" << veriftrace::termJson(logic, res) << "}" << std::endl;
                continue;
            }
            if (cmd == "atom") {
                is >> id;
                PTRef tr = terms.at(id);
                bool neg = logic.isNot(tr);
                PTRef atom = neg ? logic.getPterm(tr)[0] : tr;
                bool trivial = logic.isTrue(atom) or logic.isFalse(atom);
                bool isAtom = logic.isAtom(atom) and logic.isTheoryTerm(atom) and not trivial;
                if (isAtom) { tsh.declareAtom(atom); }
                std::cout << "{\"op\":\"atom\",\"i\":" << id << ",\"neg\":" << (neg ? "true" : "false") << ",\"usable\":" << (isAtom ? "true" : "false")
                          << ",\"a\":" << veriftrace::termJson(logic, atom) << "}" << std::endl;
                continue;
            }
            if (cmd == "assert") {
                int pol; is >> id >> pol;
                PTRef tr = terms.at(id);
                bool neg = logic.isNot(tr);
                PTRef atom = neg ? logic.getPterm(tr)[0] : tr;
                bool sgn = (pol != 0) != neg;
                bool res = tsh.assertLit(PtAsgn(atom, sgn ? l_True : l_False));
                std::cout << "{\"op\":\"assert\",\"i\":" << id << ",\"s\":" << (sgn ? "true" : "false") << ",\"res\":" << (res ? "true" : "false") << "}" << std::endl;
                continue;
            }
            if (cmd == "check") {
                int complete; is >> complete;
                TRes r = tsh.check(complete != 0);
                std::cout << "{\"op\":\"check\",\"complete\":" << (complete ? "true" : "false") << ",\"res\":\""
                          << (r == TRes::SAT ? "SAT" : r == TRes::UNSAT ? "UNSAT" : "UNKNOWN") << "\"";
                if (r == TRes::UNSAT) {
                    vec<PtAsgn> expl;
                    for (auto solver : tsh.solverSchedule) {
                        if (solver->hasExplanation()) { solver->getConflict(expl); break; }
                    }
                    std::cout << ",\"expl\":[";
                    for (int i = 0; i < expl.size(); ++i) {
                        std::cout << (i ? "," : "") << "{\"s\":" << (expl[i].sgn == l_True ? "true" : "false") << ",\"a\":" << veriftrace::termJson(logic, expl[i].tr) << "}";
                    }
                    std::cout << "]";
                }
                std::cout << "}" << std::endl;
                continue;
            }
            if (cmd == "conflict") {
                vec<PtAsgn> expl;
                for (auto solver : tsh.solverSchedule) {
                    if (solver->hasExplanation()) { solver->getConflict(expl); break; }
                }
                std::cout << "{\"op\":\"conflict\",\"expl\":[";
                for (int i = 0; i < expl.size(); ++i) {
                    std::cout << (i ? "," : "") << "{\"s\":" << (expl[i].sgn == l_True ? "true" : "false") << ",\"a\":" << veriftrace::termJson(logic, expl[i].tr) << "}";
                }
                std::cout << "]}" << std::endl;
                continue;
            }
            if (cmd == "pop") {
                unsigned n; is >> n;
                for (auto solver : tsh.solverSchedule) { solver->popBacktrackPoints(n); }
                std::cout << "{\"op\":\"pop\",\"n\":" << n << "}" << std::endl;
                continue;
            }
            if (cmd == "deduce") {
                std::cout << "{\"op\":\"deduce\",\"deds\":[";
                bool first = true;
                for (auto solver : tsh.solverSchedule) {
                    while (true) {
                        PtAsgn_reason d = solver->getDeduction();
                        if (d.tr == PTRef_Undef) { break; }
                        std::cout << (first ? "" : ",") << "{\"s\":" << (d.sgn == l_True ? "true" : "false") << ",\"a\":" << veriftrace::termJson(logic, d.tr) << "}";
                        first = false;
                    }
                }
                std::cout << "]}" << std::endl;
                continue;
            }
            std::cout << "{\"op\":\"unknown\"}" << std::endl;
        } catch (std::exception const & e) {
            std::cout << "{\"op\":\"err\",\"i\":" << id << ",\"err\":" << veriftrace::quote(e.what()) << "}" << std::endl;
        }
    }
    return 0;
}
