// rat_driver: executes FastRational operations given on stdin and prints results with the
// representation state of every value (C15); also the literal readers (C16) and the integer
// rounding helpers (C27).
//   lit <id> <string>            FastRational from a decimal/fraction string (base 10)
//   word <id> <n> <d>            FastRational(word n, uword d)
//   op <id> <name> <a> [<b>]     value-producing operation on earlier ids
//   ip <id> <name> <a> [<b>]     in-place operation on the object <a>, which is renamed <id>
//   q <id> <name> <a> [<b>]      integer/Boolean-producing query
// One JSON object per line.
#define private public
#define protected public
#include <common/numbers/FastRational.h>
#undef private
#undef protected
#include <common/numbers/Number.h>

#include <iostream>
#include <map>
#include <sstream>
#include <string>

using namespace opensmt;

static std::string show(long id, FastRational const & v) {
    std::ostringstream os;
    bool w = v.wordPartValid();
    bool m = v.mpqPartValid();
    // read the value through GMP from whichever part is valid, without touching the object
    FastRational copy(v);
    os << "{\"i\":" << id << ",\"v\":\"" << copy.get_str() << "\",\"w\":" << (w ? "true" : "false") << ",\"m\":" << (m ? "true" : "false")
       << ",\"hash\":" << v.getHashValue() << ",\"wf\":" << (v.isWellFormed() ? "true" : "false") << "}";
    return os.str();
}

int main() {
    std::map<long, FastRational> vals;
    std::string line;
    while (std::getline(std::cin, line)) {
        std::istringstream is(line);
        std::string cmd; long id = -1;
        is >> cmd >> id;
        try {
            if (cmd == "lit") {
                std::string s; is >> s;
                vals[id] = FastRational(s.c_str());
                std::cout << show(id, vals[id]) << std::endl;
            } else if (cmd == "word") {
                long n; unsigned long d; is >> n >> d;
                vals[id] = FastRational(static_cast<word>(n), static_cast<uword>(d));
                std::cout << show(id, vals[id]) << std::endl;
            } else if (cmd == "op") {
                std::string name; long a = -1, b = -1; is >> name >> a; is >> b;
                FastRational const & x = vals.at(a);
                FastRational r;
                if (name == "add") r = x + vals.at(b);
                else if (name == "sub") r = x - vals.at(b);
                else if (name == "mul") r = x * vals.at(b);
                else if (name == "div") r = x / vals.at(b);
                else if (name == "addassign") { r = x; r += vals.at(b); }
                else if (name == "subassign") { r = x; r -= vals.at(b); }
                else if (name == "mulassign") { r = x; r *= vals.at(b); }
                else if (name == "divassign") { r = x; r /= vals.at(b); }
                else if (name == "neg") r = -x;
                else if (name == "negate") { r = x; r.negate(); }
                else if (name == "inv") r = x.inverse();
                else if (name == "floor") r = x.floor();
                else if (name == "ceil") r = x.ceil();
                else if (name == "num") r = x.get_num();
                else if (name == "den") r = x.get_den();
                else if (name == "gcd") r = gcd(x, vals.at(b));
                else if (name == "lcm") r = lcm(x, vals.at(b));
                else if (name == "fdivq") r = fastrat_fdiv_q(x, vals.at(b));
                else if (name == "mod") { FastRational t = x; r = t % vals.at(b); }
                else if (name == "abs") r = abs(x);
                else if (name == "copy") r = x;
                else throw std::runtime_error("unknown op " + name);
                vals[id] = r;
                std::cout << show(id, vals[id]) << std::endl;
            } else if (cmd == "ip") {
                // in place: the object stored under <a> is modified and from now on known as <id>; its representation
                // state (which of the word / GMP parts are valid) is carried along a chain of such operations
                std::string name; long a = -1, b = -1; is >> name >> a; is >> b;
                FastRational & x = vals.at(a);
                if (name == "addassign") x += vals.at(b);
                else if (name == "subassign") x -= vals.at(b);
                else if (name == "mulassign") x *= vals.at(b);
                else if (name == "divassign") x /= vals.at(b);
                else if (name == "negate") x.negate();
                else throw std::runtime_error("unknown in-place op " + name);
                auto node = vals.extract(a);
                node.key() = id;
                vals.insert(std::move(node));
                std::cout << show(id, vals.at(id)) << std::endl;
            } else if (cmd == "ip3") {
                // three-argument form with a reused destination: dst (the object stored under <d>) = a op b; whatever
                // dst held before must not survive in either representation; dst is renamed <id>
                std::string name; long d = -1, a = -1, b = -1; is >> name >> d >> a >> b;
                FastRational & dst = vals.at(d);
                if (name == "add") addition(dst, vals.at(a), vals.at(b));
                else if (name == "sub") subtraction(dst, vals.at(a), vals.at(b));
                else if (name == "mul") multiplication(dst, vals.at(a), vals.at(b));
                else if (name == "div") division(dst, vals.at(a), vals.at(b));
                else throw std::runtime_error("unknown three-argument op " + name);
                auto node = vals.extract(d);
                node.key() = id;
                vals.insert(std::move(node));
                std::cout << show(id, vals.at(id)) << std::endl;
            } else if (cmd == "q") {
                std::string name; long a = -1, b = -1; is >> name >> a; is >> b;
                FastRational const & x = vals.at(a);
                long r = 0;
                if (name == "cmp") { int c = x.compare(vals.at(b)); r = c < 0 ? -1 : (c > 0 ? 1 : 0); }
                else if (name == "eq") r = (x == vals.at(b)) ? 1 : 0;
                else if (name == "lt") r = (x < vals.at(b)) ? 1 : 0;
                else if (name == "le") r = (x <= vals.at(b)) ? 1 : 0;
                else if (name == "sign") r = x.sign();
                else if (name == "isint") r = x.isInteger() ? 1 : 0;
                else if (name == "iszero") r = x.isZero() ? 1 : 0;
                else if (name == "isone") r = x.isOne() ? 1 : 0;
                else throw std::runtime_error("unknown query " + name);
                std::cout << "{\"i\":" << id << ",\"r\":" << r << "}" << std::endl;
            } else {
                std::cout << "{\"i\":" << id << ",\"err\":\"unknown command\"}" << std::endl;
            }
        } catch (std::exception const & e) {
            std::cout << "{\"i\":" << id << ",\"err\":\"" << e.what() << "\"}" << std::endl;
        }
    }
    return 0;
}
