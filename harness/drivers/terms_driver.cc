// terms_driver: builds terms through the public constructors of Logic / ArithLogic following a
// line protocol on stdin and prints, for every line, the resulting term (C14, C28).
//   sort <name>                         declare an uninterpreted sort
//   fun <name> <ret> <argsort>...       declare a function symbol
//   var <id> <sort> <name>              a variable
//   num <id> <sort> <literal>           a numeric constant from a string (ArithLogic::mkConst)
//   mk <id> <op> <argid>...             apply a constructor; op "uf:<name>" applies a declared function
// Output: {"i":id,"x":ptref,"pid":term id,"kids":[ptref...],"t":{...}}  or  {"i":id,"err":"..."}
#ifndef OPENSMT_VERIF_TRACE
#define OPENSMT_VERIF_TRACE
#endif
#include <logics/ArithLogic.h>
#include <logics/LogicFactory.h>
#include <logics/VerifTraceTerms.h>
#include <common/ApiException.h>

#include <iostream>
#include <map>
#include <memory>
#include <sstream>
#include <string>

using namespace opensmt;

static SRef sortByName(ArithLogic & logic, std::map<std::string, SRef> & sorts, std::string const & name) {
    auto it = sorts.find(name);
    if (it != sorts.end()) { return it->second; }
    if (name.rfind("Array:", 0) == 0) {
        // Array:<index>:<element>
        auto p = name.find(':', 6);
        SRef idx = sortByName(logic, sorts, name.substr(6, p - 6));
        SRef el = sortByName(logic, sorts, name.substr(p + 1));
        SRef s = logic.getArraySort(idx, el);
        sorts[name] = s;
        return s;
    }
    throw std::runtime_error("unknown sort " + name);
}

int main() {
    std::unique_ptr<ArithLogic> logicPtr(LogicFactory::getLAInstance(Logic_t::QF_AUFLIRA));
    ArithLogic & logic = *logicPtr;
    std::map<std::string, SRef> sorts{{"Bool", logic.getSort_bool()}, {"Int", logic.getSort_int()}, {"Real", logic.getSort_real()}};
    std::map<std::string, SymRef> funs;
    std::map<long, PTRef> terms;
    std::string line;
    while (std::getline(std::cin, line)) {
        std::istringstream is(line);
        std::string cmd;
        is >> cmd;
        long id = -1;
        try {
            if (cmd == "sort") {
                std::string name; is >> name;
                sorts[name] = logic.declareUninterpretedSort(name);
                continue;
            }
            if (cmd == "fun") {
                std::string name, ret; is >> name >> ret;
                vec<SRef> args; std::string a;
                while (is >> a) { args.push(sortByName(logic, sorts, a)); }
                // a name may be declared with several arities, and declared again: "<name>#<arity>" selects the overload
                SymRef sr = logic.declareFun(name, sortByName(logic, sorts, ret), args);
                funs[name] = sr;
                funs[name + "#" + std::to_string(args.size())] = sr;
                continue;
            }
            is >> id;
            PTRef res = PTRef_Undef;
            if (cmd == "var") {
                std::string s, name; is >> s >> name;
                res = logic.mkVar(sortByName(logic, sorts, s), name.c_str());
            } else if (cmd == "num") {
                std::string s, lit; is >> s >> lit;
                res = logic.mkConst(sortByName(logic, sorts, s), lit.c_str());
            } else if (cmd == "mk") {
                std::string op; is >> op;
                vec<PTRef> args; long a;
                while (is >> a) { args.push(terms.at(a)); }
                if (op == "and") res = logic.mkAnd(std::move(args));
                else if (op == "or") res = logic.mkOr(std::move(args));
                else if (op == "not") res = logic.mkNot(args[0]);
                else if (op == "=>") res = logic.mkImpl(std::move(args));
                else if (op == "xor") res = logic.mkXor(std::move(args));
                else if (op == "ite") res = logic.mkIte(std::move(args));
                else if (op == "=") res = logic.mkEq(std::move(args));
                else if (op == "distinct") res = logic.mkDistinct(std::move(args));
                else if (op == "+") res = logic.mkPlus(std::move(args));
                else if (op == "-") res = args.size() == 1 ? logic.mkNeg(args[0]) : logic.mkMinus(std::move(args));
                else if (op == "*") res = logic.mkTimes(std::move(args));
                else if (op == "/") res = logic.mkRealDiv(std::move(args));
                else if (op == "div") res = logic.mkIntDiv(std::move(args));
                else if (op == "mod") res = logic.mkMod(std::move(args));
                else if (op == "<=") res = logic.mkLeq(args);
                else if (op == "<") res = logic.mkLt(args);
                else if (op == ">=") res = logic.mkGeq(args);
                else if (op == ">") res = logic.mkGt(args);
                else if (op == "select") res = logic.mkSelect(std::move(args));
                else if (op == "store") res = logic.mkStore(std::move(args));
                else if (op.rfind("uf:", 0) == 0) res = logic.mkUninterpFun(funs.at(op.substr(3)), std::move(args));
                else throw std::runtime_error("unknown op " + op);
            } else {
                continue;
            }
            terms[id] = res;
            Pterm const & t = logic.getPterm(res);
            std::ostringstream os;
            os << "{\"i\":" << id << ",\"x\":" << res.x << ",\"pid\":" << t.getId().x << ",\"kids\":[";
            for (int i = 0; i < t.size(); ++i) { os << (i ? "," : "") << t[i].x; }
            os << "],\"t\":" << veriftrace::termJson(logic, res) << "}";
            std::cout << os.str() << std::endl;
        } catch (std::exception const & e) {
            std::cout << "{\"i\":" << id << ",\"err\":" << veriftrace::quote(e.what()) << "}" << std::endl;
        }
    }
    return 0;
}
