// stop_driver: asynchronous-stop experiments (C25).
//   stop_driver <script.smt2> <mode> <k> [delay_us]
// The script (without check-sat) is executed through Interpret; then MainSolver::check() is called.
//   mode = count      : no stop request; prints the number of poll points (okContinue calls)
//   mode = local|global, k > 0 : the stop request is issued synchronously at the k-th poll point
//   mode = thread-local|thread-global : a second thread issues the request after delay_us microseconds
// Output: {"res":"sat|unsat|unknown","polls":n}
#ifndef OPENSMT_VERIF_TRACE
#define OPENSMT_VERIF_TRACE
#endif
#include <api/GlobalStop.h>
#include <api/Interpret.h>
#include <common/VerifTrace.h>

#include <chrono>
#include <cstring>
#include <fstream>
#include <iostream>
#include <sstream>
#include <thread>

using namespace opensmt;

static MainSolver * theSolver = nullptr;
static long stopAt = 0;
static bool globalMode = false;

static void onPoll(long n) {
    if (stopAt > 0 and n == stopAt) {
        if (globalMode) { notifyGlobalStop(); } else { theSolver->notifyStop(); }
    }
}

int main(int argc, char ** argv) {
    if (argc < 4) { return 2; }
    std::ifstream in(argv[1]);
    std::stringstream buf; buf << in.rdbuf();
    std::string text = buf.str();
    std::string mode = argv[2];
    long k = atol(argv[3]);
    long delay = argc > 4 ? atol(argv[4]) : 0;
    SMTConfig config;
    Interpret interpreter(config);
    std::vector<char> content(text.begin(), text.end());
    content.push_back('\0');
    interpreter.interpFile(content.data());
    theSolver = &interpreter.getMainSolver();
    globalMode = mode == "global" or mode == "thread-global";
    stopAt = (mode == "local" or mode == "global") ? k : 0;
    veriftrace::pollCount() = 0;
    veriftrace::pollCallback() = onPoll;
    std::thread stopper;
    if (mode == "thread-local" or mode == "thread-global") {
        stopper = std::thread([&]() {
            std::this_thread::sleep_for(std::chrono::microseconds(delay));
            if (globalMode) { notifyGlobalStop(); } else { theSolver->notifyStop(); }
        });
    }
    sstat r = theSolver->check();
    if (stopper.joinable()) { stopper.join(); }
    std::cout << "{\"res\":\"" << (r == s_True ? "sat" : r == s_False ? "unsat" : "unknown") << "\",\"polls\":" << veriftrace::pollCount() << "}" << std::endl;
    return 0;
}
