// names_driver: drives the real opensmt::TermNames (src/common/TermNames.h) along a line protocol and prints the
// observable table after every operation (C21, spec/Names.tla).
//   reset <0|1>            a fresh table; 1 = :global-declarations
//   ins <name> <term>      tryInsert(name, PTRef{term})
//   push | pop             pushScope / popScope (protected, MainSolver is the only caller in the library)
// Output per line: {"res":"true|false|none","pairs":[[name,term]...],"n2t":[[name,term]...],"t2n":[[term,[names]]...],"size":n}
#define protected public
#include <common/TermNames.h>
#undef protected
#include <options/SMTConfig.h>

#include <iostream>
#include <memory>
#include <set>
#include <sstream>
#include <string>

using namespace opensmt;

int main() {
    std::unique_ptr<SMTConfig> config;
    std::unique_ptr<TermNames> names;
    std::set<std::string> allNames;
    std::set<uint32_t> allTerms;
    std::string line;
    while (std::getline(std::cin, line)) {
        std::istringstream is(line);
        std::string cmd;
        is >> cmd;
        std::string res = "none";
        if (cmd == "reset") {
            int global = 0;
            is >> global;
            names.reset();
            config = std::make_unique<SMTConfig>();
            if (global) {
                char const * msg = nullptr;
                config->setOption(SMTConfig::o_global_declarations, SMTOption(1), msg);
            }
            names = std::make_unique<TermNames>(*config);
            allNames.clear();
            allTerms.clear();
        } else if (cmd == "ins") {
            std::string name;
            uint32_t t;
            is >> name >> t;
            allNames.insert(name);
            allTerms.insert(t);
            res = names->tryInsert(name, PTRef{t}) ? "true" : "false";
        } else if (cmd == "push") {
            names->pushScope();
        } else if (cmd == "pop") {
            names->popScope();
        } else {
            continue;
        }
        std::ostringstream os;
        os << "{\"res\":\"" << res << "\",\"pairs\":[";
        bool first = true;
        for (auto const & [n, t] : *names) {
            if (not first) { os << ','; }
            first = false;
            os << "[\"" << n << "\"," << t.x << "]";
        }
        os << "],\"n2t\":[";
        first = true;
        for (auto const & n : allNames) {
            if (not names->contains(n)) { continue; }
            if (not first) { os << ','; }
            first = false;
            os << "[\"" << n << "\"," << names->termByName(n).x << "]";
        }
        os << "],\"t2n\":[";
        first = true;
        for (auto t : allTerms) {
            if (not names->contains(PTRef{t})) { continue; }
            if (not first) { os << ','; }
            first = false;
            os << "[" << t << ",[";
            bool f2 = true;
            for (auto const & n : names->namesForTerm(PTRef{t})) {
                if (not f2) { os << ','; }
                f2 = false;
                os << "\"" << n << "\"";
            }
            os << "]]";
        }
        os << "],\"size\":" << names->size() << "}";
        std::cout << os.str() << std::endl;
    }
    return 0;
}
