// threads_driver: independent solver instances in concurrent threads (C24).
//   threads_driver <rounds> <script1.smt2> <script2.smt2> ...
// Every script (without check-sat) is loaded into its own Interpret (own Logic, SMTConfig, MainSolver)
// inside its own thread; all threads start together; each calls check() and reports the answer.
// With one script the run is the solo reference.
// Output: one line per round {"round":r,"res":["sat","unsat",...]}
#include <api/Interpret.h>

#include <atomic>
#include <fstream>
#include <iostream>
#include <sstream>
#include <string>
#include <thread>
#include <vector>

using namespace opensmt;

int main(int argc, char ** argv) {
    if (argc < 3) { return 2; }
    int rounds = atoi(argv[1]);
    std::vector<std::string> texts;
    for (int i = 2; i < argc; ++i) {
        std::ifstream in(argv[i]);
        std::stringstream buf; buf << in.rdbuf();
        texts.push_back(buf.str());
    }
    for (int r = 0; r < rounds; ++r) {
        std::vector<std::string> results(texts.size(), "none");
        std::atomic<int> ready{0};
        std::atomic<bool> go{false};
        std::vector<std::thread> threads;
        for (std::size_t t = 0; t < texts.size(); ++t) {
            threads.emplace_back([&, t]() {
                ++ready;
                while (not go.load()) { std::this_thread::yield(); }
                try {
                    SMTConfig config;
                    Interpret interpreter(config);
                    std::vector<char> content(texts[t].begin(), texts[t].end());
                    content.push_back('\0');
                    interpreter.interpFile(content.data());
                    sstat res = interpreter.getMainSolver().check();
                    results[t] = res == s_True ? "sat" : res == s_False ? "unsat" : "unknown";
                } catch (std::exception const & e) {
                    results[t] = std::string("exception: ") + e.what();
                }
            });
        }
        while (ready.load() < static_cast<int>(texts.size())) { std::this_thread::yield(); }
        go = true;
        for (auto & th : threads) { th.join(); }
        std::cout << "{\"round\":" << r << ",\"res\":[";
        for (std::size_t t = 0; t < results.size(); ++t) { std::cout << (t ? "," : "") << '"' << results[t] << '"'; }
        std::cout << "]}" << std::endl;
    }
    return 0;
}
