#!/usr/bin/env python3
"""bin/check <property> <quick|thorough>   - decide one property on /repo's current tree.
   bin/check --replay <dir>              - re-validate a stored violation.

Exit status: 0 the property held on everything explored (known findings are listed),
1 with a line 'VIOLATION property=<id> replay=<path>', 2 machinery problem (no verdict)."""
import sys, os, json, time, random, subprocess, shutil, hashlib
from concurrent.futures import ProcessPoolExecutor
sys.path.insert(0, os.path.dirname(os.path.abspath(__file__)))
import tlc as T
import plans

VERIF = os.path.dirname(os.path.dirname(os.path.abspath(__file__)))
BUILD = os.environ.get("VERIF_BUILD") or os.path.join(VERIF, "build")
EVID = os.environ.get("VERIF_EVID") or os.path.join(VERIF, "evidence")
REPLAY = os.path.join(BUILD, "replay")
TRACES = os.path.join(BUILD, "traces")

def log(*a):
    print(*a, file=sys.stderr, flush=True)

def build(flavour="rel"):
    r = subprocess.run([os.path.join(VERIF, "bin", "build.sh"), flavour], stdout=subprocess.PIPE, stderr=subprocess.STDOUT)
    if r.returncode != 0:
        log(r.stdout.decode("utf-8", "replace")[-3000:])
        return False
    return True

def load_known():
    p = os.path.join(VERIF, "known_findings.json")
    if not os.path.exists(p):
        return []
    with open(p) as f:
        return [e for e in json.load(f).get("findings", []) if e.get("status", "known") == "known"]

def matches(v, k):
    """does violation record v (with its run context) match known finding k"""
    if v.get("p") != k["property"]:
        return False
    for key, want in k.get("match", {}).items():
        have = v.get(key)
        if key == "why":
            have = json.dumps(have, sort_keys=True) if not isinstance(have, str) else have
            if want not in have:
                return False
        elif key.endswith("_in"):
            if v.get(key[:-3]) not in want:
                return False
        elif key == "text_contains":
            if not any(want in t.get("text", "") for t in v.get("_texts", [])):
                return False
        elif key == "out_contains_any":
            if not any(w in t.get("out", "") for t in v.get("_texts", []) for w in want):
                return False
        elif have != want:
            return False
    return True

def features_at(events, line, why):
    """features of the history up to the violating event, computed from the family's own events: is some formula (by the
    solver's identity x of the insertFormula hook) asserted twice among the active assertions; are the assertions named in
    the violation among those"""
    stack, xs_ok = [[]], True
    ever = []
    for idx, e in enumerate(events, 1):
        if idx > line:
            break
        if e.get("e") == "Run":
            stack, xs_ok, ever = [[]], True, []
        elif e.get("e") == "Cmd" and e.get("r") == "ok":
            c = e.get("c")
            if c == "assert":
                if "x" not in e:
                    xs_ok = False
                # (name, solver identity, harness term, [(inner name, harness term)])
                ix = e.get("ix") or []
                stack[-1].append((e.get("nm", ""), e.get("x", -1), e.get("t"),
                                  [(i["nm"], i["t"], ix[j] if j < len(ix) else -1) for j, i in enumerate(e.get("inner", []))]))
                ever.append(e.get("x", -1))
            elif c == "push":
                stack += [[] for _ in range(e.get("n", 1))]
            elif c == "pop":
                del stack[max(1, len(stack) - e.get("n", 1)):]
    act = [a for fr in stack for a in fr]
    # an active unnamed assertion whose formula also carries a live name (given to another assertion of the same
    # formula, or to an occurrence of it as a sub-term): the solver's name table is keyed by term
    named_t = {t for n, x, t, inner in act if n} | {t for n, x, t, inner in act for _, t, _ in inner}
    named_x = {x for n, x, t, inner in act if n and x != -1} | {ix for n, x, t, inner in act for _, _, ix in inner if ix != -1}
    out = {"aliasUnnamed": any((not n) and (t in named_t or (x != -1 and x in named_x)) for n, x, t, inner in act)}
    if not xs_ok:
        return out
    xs = [x for _, x, _, _ in act]
    dupx = {x for x in xs if xs.count(x) > 1}
    out["dupActive"] = bool(dupx)
    out["dupEver"] = len(set(ever)) != len(ever)      # also copies on levels that have been popped since
    members = why.get("members") if isinstance(why, dict) else None
    if members is not None:
        out["memberDup"] = any(x in dupx for n, x, _, _ in act if n in set(members))
    return out

def run_jobs(jobs, nproc=14):
    import builders
    out = []
    with ProcessPoolExecutor(max_workers=nproc) as ex:
        for r in ex.map(builders.build, jobs, chunksize=1):
            out.append(r)
    return out

def write_batches(pid, fams, per_batch, modof=None):
    """fams: list of family results (with events).  -> list of (path, [(first_line, last_line, fam_index)], module);
    families validated by different trace specifications go to different batches"""
    d = os.path.join(TRACES, pid)
    shutil.rmtree(d, ignore_errors=True)
    os.makedirs(d, exist_ok=True)
    batches = []
    mods = []
    for fr in fams:
        m = modof(fr) if modof else None
        if m not in mods:
            mods.append(m)
    for m in mods:
        cur, spans, line = [], [], 0
        cost = 0
        def flush():
            nonlocal cur, spans, line
            if cur:
                path = os.path.join(d, "b%03d.ndjson" % len(batches))
                with open(path, "w") as f:
                    for e in cur:
                        f.write(json.dumps(e, separators=(",", ":")) + "\n")
                batches.append((path, spans, m))
            cur, spans, line = [], [], 0
        for i, fr in enumerate(fams):
            if (modof(fr) if modof else None) != m:
                continue
            evs = fr["events"]
            spans.append((line + 1, line + len(evs), i))
            cur += evs
            line += len(evs)
            cost += 1
            if cost >= per_batch:
                flush(); cost = 0
        flush()
    return batches

def validate_batches(batches, module, jobs=8, timeout=300):
    from concurrent.futures import ThreadPoolExecutor
    with ThreadPoolExecutor(max_workers=jobs) as ex:
        return list(ex.map(lambda b: T.validate(b[0], b[2] or module, timeout), batches))

def fam_of_line(spans, l):
    for a, b, i in spans:
        if a <= l <= b:
            return i, l - a + 1
    return None, None

def single_trace(pid, fr, tag):
    d = os.path.join(TRACES, pid, "single")
    os.makedirs(d, exist_ok=True)
    path = os.path.join(d, "%s.ndjson" % tag)
    with open(path, "w") as f:
        for e in fr["events"]:
            f.write(json.dumps(e, separators=(",", ":")) + "\n")
    return path

def save_replay(pid, n, fr, viols, module):
    d = os.path.join(REPLAY, pid, "v%03d" % n)
    shutil.rmtree(d, ignore_errors=True)
    os.makedirs(d, exist_ok=True)
    with open(os.path.join(d, "trace.ndjson"), "w") as f:
        for e in fr["events"]:
            f.write(json.dumps(e, separators=(",", ":")) + "\n")
    for j, t in enumerate(fr.get("texts", [])):
        with open(os.path.join(d, "run%02d_%s_%s_%s.smt2" % (j, t["sid"], t["cfg"].replace(":", "_"), t["io"])), "w") as f:
            f.write(t["text"])
        with open(os.path.join(d, "run%02d.out" % j), "w") as f:
            f.write(t.get("out", ""))
    with open(os.path.join(d, "violation.json"), "w") as f:
        json.dump({"property": pid, "module": module, "violations": [{k: v for k, v in x.items() if not k.startswith("_")} for x in viols],
                   "job": fr.get("job")}, f, indent=1)
    return d

def replay(path):
    path = os.path.abspath(path)      # TLC runs in the specification directory
    with open(os.path.join(path, "violation.json")) as f:
        info = json.load(f)
    r = T.validate(os.path.join(path, "trace.ndjson"), module=info.get("module", "Script_Trace"))
    if not r.get("ok", True) and not r["viols"] and r["rejected_at"] is None:
        print("replay: TLC did not evaluate the trace"); print(r.get("out", "")[-800:])
        return 2
    mine = [v for v in r["viols"] if v.get("p") == info["property"]]
    for v in mine:
        print("VIOLATION property=%s replay=%s" % (info["property"], path))
        print(json.dumps(v))
    if r["rejected_at"] is not None:
        print("trace rejected at line", r["rejected_at"])
    return 1 if (mine or r["rejected_at"] is not None) else 0

def main():
    if len(sys.argv) >= 3 and sys.argv[1] == "--replay":
        sys.exit(replay(sys.argv[2]))
    pid = sys.argv[1]
    tier = sys.argv[2] if len(sys.argv) > 2 else os.environ.get("VERIF_TIER", "quick")
    seed = int(os.environ.get("VERIF_SEED", "1") or 1)
    t0 = time.time()
    plan = plans.PLANS[pid]
    os.makedirs(EVID, exist_ok=True)
    for fl in plan.get("flavours", ["rel"]):
        if not build(fl):
            log("build failed"); sys.exit(2)
    if "pre" in plan and not plan["pre"]():
        log("driver build failed"); sys.exit(2)
    if "custom" in plan:
        # checks with their own driver (C++ drivers, design-only, ...) implement run(pid, tier, seed)
        rc = plan["custom"](pid, tier, seed, plan)
        sys.exit(rc)
    jobs = plan["jobs"](seed, tier)
    for j in jobs:
        j["pid"] = pid
    log("[%s] %d families to build" % (pid, len(jobs)))
    fams = run_jobs(jobs)
    errors = [f for f in fams if "error" in f]
    for e in errors[:3]:
        log("builder error:", e["error"][-1500:])
    good = []
    for j, f in zip(jobs, fams):
        if "error" not in f:
            f["job"] = j
            good.append(f)
    if not good:
        log("no family could be built"); sys.exit(2)
    if len(errors) * 10 > len(jobs):
        # a broken generator silently shrinks what is explored: that is a failure of the machinery, not a pass
        log("[%s] %d of %d families could not be built" % (pid, len(errors), len(jobs))); sys.exit(2)
    module = plan.get("module", "Script_Trace")
    modof = lambda f: f["job"].get("module") or module
    batches = write_batches(pid, good, plan.get("per_batch", 12), modof)
    log("[%s] %d batches, validating with TLC (%s)" % (pid, len(batches), ", ".join(sorted(set(b[2] for b in batches)))))
    res = validate_batches(batches, module, jobs=plan.get("tlc_jobs", 8))
    viols = []          # (family index, violation)
    dropped = 0
    validated_runs = 0
    states = 0
    sat_stats = {"sat": 0, "unsat": 0, "unknown": 0, "skipped": 0}
    retry = []
    for (path, spans, _m), r in zip(batches, res):
        if r["error"] is not None:
            retry += [i for _, _, i in spans]
            continue
        states += r["states"]
        for s in r["sat"]:
            sat_stats[s.get("v", "unknown")] = sat_stats.get(s.get("v", "unknown"), 0) + 1
        if r["rejected_at"] is not None:
            i, ll = fam_of_line(spans, r["rejected_at"])
            if i is not None:
                viols.append((i, {"p": plan.get("reject_owner", pid), "why": "trace rejected: no action of the specification matches", "l": ll, "rejected": True}))
                done = [k for a, b, k in spans if b < r["rejected_at"]]
                validated_runs += sum(good[k]["runs"] for k in done)
                retry += [k for a, b, k in spans if a > r["rejected_at"]]
            continue
        validated_runs += sum(good[i]["runs"] for _, _, i in spans)
        for v in r["viols"]:
            i, ll = fam_of_line(spans, v.get("l", 0))
            if i is not None:
                v = dict(v); v["l"] = ll
                viols.append((i, v))
    if retry:
        log("[%s] re-validating %d families one by one" % (pid, len(retry)))
        paths = [single_trace(pid, good[i], "r%04d" % i) for i in retry]
        rr = validate_batches([(p_, None, modof(good[i])) for p_, i in zip(paths, retry)], module, jobs=plan.get("tlc_jobs", 8), timeout=150)
        for i, r in zip(retry, rr):
            if r["error"] is not None:
                dropped += 1
                log("dropped family (machinery):", r["error"], (r.get("out") or "")[-600:])
                continue
            states += r["states"]
            validated_runs += good[i]["runs"]
            for s in r["sat"]:
                sat_stats[s.get("v", "unknown")] = sat_stats.get(s.get("v", "unknown"), 0) + 1
            if r["rejected_at"] is not None:
                viols.append((i, {"p": plan.get("reject_owner", pid), "why": "trace rejected: no action of the specification matches", "l": r["rejected_at"], "rejected": True}))
            for v in r["viols"]:
                viols.append((i, v))
    if dropped == len(good):
        log("every family was dropped"); sys.exit(2)
    # --- classification
    remap0 = plan.get("remap", lambda v: v.get("p"))
    byfam = {}
    for i, v in viols:
        byfam.setdefault(i, []).append(v)
    def remap(v, fam=None):
        try:
            return remap0(v, fam or [])
        except TypeError:
            return remap0(v)
    mine, others = {}, {}
    for i, v in viols:
        p = remap(v, byfam.get(i))
        v = dict(v); v["p_orig"] = v.get("p"); v["p"] = p
        (mine if p == pid else others).setdefault(i, []).append(v)
    os.makedirs(os.path.join(BUILD, "last"), exist_ok=True)
    with open(os.path.join(BUILD, "last", pid + ".json"), "w") as f:
        json.dump({"mine": {str(k): v for k, v in mine.items()}, "others": {str(k): v for k, v in others.items()},
                   "jobs": {str(i): good[i]["job"] for i in list(mine) + list(others)}}, f, indent=1)
    known = load_known()
    confirmed = []
    known_hits = {}
    import builders
    for i, vs in sorted(mine.items()):
        fr = good[i]
        # confirm: rebuild the family from its job and validate it alone
        ok2 = False
        # properties about schedules and address layout (reproducibility, threads, stop) get several attempts
        for attempt in range(plan.get("confirm_tries", 1)):
            again = builders.build(fr["job"])
            if "error" not in again:
                p2 = single_trace(pid, again, "c%04d" % i)
                r2 = T.validate(p2, module=modof(fr))
                vs2 = [dict(v, p=remap(v, r2["viols"])) for v in r2["viols"]]
                if r2["rejected_at"] is not None:
                    vs2.append({"p": plan.get("reject_owner", pid), "rejected": True})
                ok2 = any(v["p"] == pid for v in vs2)
            if ok2:
                break
        if not ok2:
            log("[%s] violation not reproduced on re-run, ignored:" % pid, json.dumps(vs[0])[:300])
            continue
        rest = []
        for v in vs:
            v["_texts"] = fr.get("texts", [])
            feats = features_at(fr.get("events", []), v.get("l", 0), v.get("why"))
            # without the per-assertion identities fall back to the run-level flag
            v["dupActive"] = feats.get("dupActive", bool(v.get("dup")))
            v["memberDup"] = feats.get("memberDup", bool(v.get("dup")))
            v["aliasUnnamed"] = feats.get("aliasUnnamed", False)
            v["dupEver"] = feats.get("dupEver", bool(v.get("dup")))
            hit = next((k for k in known if matches(v, k)), None)
            if hit:
                known_hits.setdefault(hit["id"], [hit, 0])[1] += 1
            else:
                rest.append(v)
        if rest:
            confirmed.append((i, rest))
    for kid, (k, n) in sorted(known_hits.items()):
        print("KNOWN-FINDING: property=%s %s [%s, %d occurrence(s)]" % (pid, k["what"], kid, n))
    rc = 0
    for n, (i, vs) in enumerate(confirmed[:10]):
        d = save_replay(pid, n, good[i], vs, modof(good[i]))
        print("VIOLATION property=%s replay=%s" % (pid, d))
        print("  " + json.dumps({k: v for k, v in vs[0].items() if not k.startswith("_")})[:600])
        rc = 1
    # --- evidence
    mc = plans.design_results(pid, tier, plan)
    if mc.get("failed"):
        print("VIOLATION property=%s replay=%s" % (pid, mc["failed"]))
        rc = 1
    nontriv = sum(1 for f in good if f.get("nontrivial"))
    distinct = len(set(hashlib.sha1((f["sample"].get("script") or (f.get("texts") or [{}])[0].get("text", "") or
                                     json.dumps(f["sample"], sort_keys=True)).encode()).hexdigest()
                       for f in good if f.get("nontrivial")))
    samples = [f["sample"] for f in good[:3]]
    answers = {}
    for f in good:
        for a in f.get("stats", {}).get("answers", []):
            answers[a] = answers.get(a, 0) + 1
    extra_cov = plan.get("coverage", lambda goods: {})(good)
    ev = {
        "property_id": pid, "tier": tier, "seed": seed, "level": plan.get("level", "model_checking"),
        "coverage": dict({
            "states": mc.get("states", 0) + states,
            "transitions": mc.get("transitions", 0) + max(states - len(batches), 0),
            "traces_validated_against_impl": validated_runs,
            "samples": samples,
            "evaluations": sum(f["runs"] for f in good),
            "distinct_nontrivial": distinct,
            "rule": plan.get("rule", "generated script families; non-trivial = at least one definitive check-sat answer; distinct by script text"),
            "exhaustive_configs": mc.get("configs", []),
            "trace_states": states,
            "families": len(good), "families_dropped_machinery": dropped, "builder_errors": len(errors),
            "kernel_verdicts": sat_stats, "answers": answers,
            "violations_of_other_properties_seen": sorted(set(v["p"] for vs in others.values() for v in vs)),
            "known_findings_hit": {k: n for k, (_, n) in known_hits.items()},
        }, **extra_cov),
        "assumptions": plan.get("assumptions", []),
        "wall_s": round(time.time() - t0, 1),
        "violations": len(confirmed),
    }
    with open(os.path.join(EVID, pid + ".json"), "w") as f:
        json.dump(ev, f, indent=1)
    log("[%s] %s: %d families, %d runs validated, %d violations, %d known, %.0fs" %
        (pid, tier, len(good), validated_runs, len(confirmed), len(known_hits), time.time() - t0))
    sys.exit(rc)

if __name__ == "__main__":
    main()
