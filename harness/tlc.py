"""Running TLC: trace validation batches and exhaustive configurations."""
import os, subprocess, json, re, shutil, tempfile, time, hashlib
from concurrent.futures import ThreadPoolExecutor

VERIF = os.path.dirname(os.path.dirname(os.path.abspath(__file__)))
BUILD = os.environ.get("VERIF_BUILD") or os.path.join(VERIF, "build")
SPEC = os.path.join(VERIF, "spec")
JAR = "/opt/veriftools/tla/tla2tools.jar:/opt/veriftools/tla/CommunityModules-deps.jar"
STATES = os.path.join(BUILD, "tlc")

def _specdir():
    """one flat directory with every module (TLC resolves EXTENDS in the spec's directory)"""
    d = os.path.join(BUILD, "specflat")
    os.makedirs(d, exist_ok=True)
    for root, _, files in os.walk(SPEC):
        for f in files:
            if f.endswith((".tla", ".cfg")):
                src = os.path.join(root, f)
                dst = os.path.join(d, f)
                if not os.path.exists(dst) or os.path.getmtime(dst) < os.path.getmtime(src):
                    shutil.copy2(src, dst)
    return d

def run_tlc(module, cfg=None, env=None, workers=1, timeout=600, xmx="2g", extra=(), tag=None):
    """-> dict(rc, out, wall, timed_out)"""
    d = _specdir()
    os.makedirs(STATES, exist_ok=True)
    meta = tempfile.mkdtemp(prefix="m_", dir=STATES)
    e = dict(os.environ)
    if env:
        e.update(env)
    cmd = ["java", "-XX:+UseParallelGC", "-Xmx" + xmx, "-Xss64m", "-cp", JAR, "tlc2.TLC", "-workers", str(workers),
           "-noGenerateSpecTE", "-metadir", meta, "-config", (cfg or module) + ".cfg"] + list(extra) + [module + ".tla"]
    t0 = time.time()
    try:
        p = subprocess.run(cmd, cwd=d, env=e, stdout=subprocess.PIPE, stderr=subprocess.STDOUT, timeout=timeout)
        out, rc, to = p.stdout.decode("utf-8", "replace"), p.returncode, False
    except subprocess.TimeoutExpired as ex:
        out, rc, to = (ex.stdout or b"").decode("utf-8", "replace"), -1, True
    finally:
        shutil.rmtree(meta, ignore_errors=True)
    return {"rc": rc, "out": out, "wall": time.time() - t0, "to": to}

VIOL = re.compile(r'^"?@@VIOL (.*?)"?$')
SATL = re.compile(r'^"?@@SAT (.*?)"?$')
REJ = re.compile(r'^"?@@REJECTED (\d+)"?$')

def _unq(s):
    # PrintT shows strings with TLA+ escapes
    return s.replace('\\"', '"').replace("\\\\", "\\")

def validate(trace_path, module="Script_Trace", timeout=900, xmx="3g"):
    """Validate one ndjson trace.  -> dict(ok, viols, sat, rejected_at, error, wall, states)"""
    r = run_tlc(module, env={"TRACE": trace_path}, workers=1, timeout=timeout, xmx=xmx)
    viols, sats = [], []
    rejected = None
    for line in r["out"].split("\n"):
        line = line.strip()
        m = VIOL.match(line)
        if m:
            try:
                viols.append(json.loads(_unq(m.group(1))))
            except Exception:
                viols.append({"p": "?", "raw": line})
            continue
        m = SATL.match(line)
        if m:
            try:
                sats.append(json.loads(_unq(m.group(1))))
            except Exception:
                pass
            continue
        m = REJ.match(line)
        if m:
            rejected = int(m.group(1))
    states = 0
    m = re.search(r"(\d+) states generated, (\d+) distinct states found", r["out"])
    if m:
        states = int(m.group(2))
    finished = "Model checking completed" in r["out"] or "Finished in" in r["out"]
    error = None
    if r["to"]:
        error = "timeout"
    elif rejected is None and ("Error:" in r["out"] or r["rc"] not in (0,)):
        # anything but a clean acceptance or an explicit rejection is a machinery error
        if not (r["rc"] == 0):
            error = "tlc rc=%s" % r["rc"]
    ok = (error is None) and rejected is None and finished
    return {"ok": ok, "viols": viols, "sat": sats, "rejected_at": rejected, "error": error, "wall": r["wall"],
            "states": states, "out": r["out"] if (error or rejected is not None) else ""}

def validate_many(paths, module="Script_Trace", jobs=8, timeout=900):
    with ThreadPoolExecutor(max_workers=jobs) as ex:
        return list(ex.map(lambda p: validate(p, module, timeout), paths))

def model_check(module, cfg=None, workers=8, timeout=1800, xmx="8g", coverage=True):
    """exhaustive configuration -> dict(ok, states, distinct, transitions?, coverage, out)"""
    extra = ["-coverage", "1"] if coverage else []
    r = run_tlc(module, cfg, workers=workers, timeout=timeout, xmx=xmx, extra=extra)
    out = r["out"]
    gen = dist = 0
    m = None
    for m in re.finditer(r"(\d+) states generated, (\d+) distinct states found", out):
        pass
    if m:
        gen, dist = int(m.group(1)), int(m.group(2))
    cov = {}
    for mm in re.finditer(r"<(\w+) line \d+, col \d+ to line \d+, col \d+ of module (\w+)>: (\d+):(\d+)", out):
        cov[mm.group(1)] = cov.get(mm.group(1), 0) + int(mm.group(3))
    ok = r["rc"] == 0 and "Model checking completed. No error has been found" in out
    depth = 0
    md = re.search(r"The depth of the complete state graph search is (\d+)", out)
    if md:
        depth = int(md.group(1))
    return {"ok": ok, "rc": r["rc"], "generated": gen, "distinct": dist, "coverage": cov, "depth": depth,
            "wall": r["wall"], "to": r["to"], "out": out if not ok else ""}
