"""Family builders: each takes a job dict and returns a JSON-able result
   {"events": [...], "runs": n, "sample": {...}, "stats": {...}}
A family = one term table + runs of script variants whose traces Script_Trace validates."""
import random, copy
import gen as G
import core as C
from smtlib import BOOL, INT, REAL

CONFIGS = {
    "c0": [],
    "seed": [(":random-seed", "91")],
    "seed2": [(":random-seed", "12345")],
    "la": [(":pure-lookahead", "true")],
    "picky": [(":picky", "true")],
    "ghost": [(":ghost-vars", "true")],
    "proofs": [(":produce-proofs", "true")],
    "itp": [(":produce-interpolants", "true")],
    "cores": [(":produce-unsat-cores", "true")],
    "nosubst": [(":do-substitutions", "false")],
    "luby0": [(":luby-restart", "0")],
    "rf1": [(":restart-first", "1")],
    "ccmin0": [(":ccmin-mode", "0")],
    "ccmin1": [(":ccmin-mode", "1")],
    "models": [(":produce-models", "true")],
    "assign": [(":produce-assignments", "true")],
    "noinc": [(":incremental", "false")],
}
EMBED = {"QF_IDL": "QF_LIA", "QF_RDL": "QF_LRA", "QF_UF": "ALL", "QF_LIA": "QF_AUFLIA", "QF_LRA": "QF_UFLRA",
         "QF_UFIDL": "QF_UFLIA", "QF_UFRDL": "QF_UFLRA", "QF_BOOL": "QF_LRA"}

def _result(fam, job, mon=True, extra=None):
    evs = fam.events(mon=mon)
    r0 = fam.runs[0]
    sample = {"builder": job["builder"], "logic": job.get("logic"), "seed": job["seed"],
              "script": G.render_script(r0["cmds"], fam.tb, markers=False)[:1500],
              "answers": r0.get("answers", []), "runs": [(r["sid"], r["cfg"], r["kind"], r["io"]) for r in fam.runs]}
    nontriv = any(a in ("sat", "unsat") for r in fam.runs for a in r.get("answers", []))
    out = {"events": evs, "runs": len(fam.runs), "sample": sample, "nontrivial": nontriv,
           "texts": [{"sid": r["sid"], "cfg": r["cfg"], "kind": r["kind"], "io": r["io"], "text": r["text"],
                      "out": r["res"]["out"][:4000], "status": r["res"]["status"], "sig": r["res"]["sig"]} for r in fam.runs],
           "stats": dict(fam.stats, z3_calls=fam.hints.calls, answers=[a for r in fam.runs for a in r.get("answers", [])])}
    if extra:
        out.update(extra)
    return out

def _opts(*cfgs):
    out = []
    for c in cfgs:
        out += CONFIGS[c]
    return out

def _with_logic(cmds, logic):
    return [dict(c, logic=logic) if c["c"] == "set-logic" else c for c in cmds]

# ------------------------------------------------------------------ answers and models
def b_answers(job):
    """C01 C02 (C03): one incremental script, models requested after every check."""
    rng = random.Random(job["seed"])
    g = G.Gen(rng, job["logic"], nnum=job.get("nnum", 3), maxconst=job.get("maxconst", 4))
    queries = [{"c": "get-model"}] if not g.arr else []
    if job.get("mode") == "interface":
        body = G.interface_history(g, rng, queries=queries)
    elif job.get("mode") == "dlgraph":
        body = G.dlgraph_history(g, rng, queries=queries)
    elif job.get("mode") == "diamond":
        body = G.diamond_history(g, rng, queries=queries)
    elif job.get("mode") == "guarded":
        body = G.guarded_history(g, rng, queries=queries)
    elif job.get("mode") == "eqsys":
        body = G.eqsys_history(g, rng, queries=queries)
    elif job.get("mode") == "cnf":
        body = cnf_history(g, rng, n_atoms=job.get("n_atoms", 8), levels=job.get("levels", 4))
        if queries:
            body = [x for c in body for x in ([c] + ([dict(q) for q in queries] if c["c"] == "check-sat" else []))]
    else:
        body = G.random_history(g, rng, n_assert=job.get("n_assert", 5), queries=queries, fdepth=job.get("fdepth", 2))
    cfg = job.get("cfg", "c0")
    cmds = G.preamble(g, _opts("models", cfg) if not g.arr else _opts(cfg)) + body
    fam = C.Family(g)
    fam.add_run("s", cfg, "main", cmds, timeout=job.get("timeout", 20))
    for c2 in job.get("more_cfgs", []):
        cm2 = G.preamble(g, _opts("models", c2) if not g.arr else _opts(c2)) + body
        fam.add_run("s", c2, "cfg", cm2, timeout=job.get("timeout", 20))
    return _result(fam, job)

def b_models(job):
    """C03: get-model, get-value, get-assignment after each sat answer."""
    rng = random.Random(job["seed"])
    g = G.Gen(rng, job["logic"], nnum=job.get("nnum", 3), box=job.get("box"))
    tb = g.tb
    # terms to evaluate: variables, applications, compound terms
    ts = []
    pool = g.bools + g.nums + g.us
    for _ in range(4):
        x = rng.random()
        try:
            if x < 0.4 and pool:
                ts.append(rng.choice(pool))
            elif x < 0.7:
                ts.append(g.atom())
            elif g.num:
                ts.append(g.num_term())
            elif g.uf:
                ts.append(g.u_term())
            else:
                ts.append(g.formula(g.bools, 1))
        except Exception:
            pass
    queries = [{"c": "get-model"}]
    if ts:
        queries.append({"c": "get-value", "ts": ts})
    queries.append({"c": "get-assignment"})
    if job.get("mode") == "interface":
        body = G.interface_history(g, rng, queries=queries)
    elif job.get("mode") == "sums":
        body = G.sums_history(g, rng, queries=[q for q in queries if q["c"] != "get-assignment"])
    elif job.get("mode") == "eqsys":
        body = G.eqsys_history(g, rng, queries=[q for q in queries if q["c"] != "get-assignment"])
    else:
        body = G.random_history(g, rng, n_assert=job.get("n_assert", 4), p_named=0.6, queries=queries, fdepth=2)
    cfg = job.get("cfg", "c0")
    cmds = G.preamble(g, _opts("models", "assign", cfg)) + body
    fam = C.Family(g)
    fam.add_run("s", cfg, "main", cmds)
    return _result(fam, job)

# ------------------------------------------------------------------ incremental = fresh
def fresh_variants(fam, run, g, opts, logic=None):
    """for every check-sat of the run: a script with exactly the assertions active then"""
    mir = C.Mirror()
    segs, done, _ = C.split_output(run["res"]["out"], len(run["cmds"]))
    out = []
    k = 0
    for i, cmd in enumerate(run["cmds"]):
        if i >= done:
            break
        r = "error" if "(error" in segs[i] else "ok"
        if cmd["c"] == "check-sat":
            k += 1
            cm = G.preamble(g, opts)
            if logic:
                cm = _with_logic(cm, logic)
            for nm, (params, b, _) in mir.defs.items():
                cm.append({"c": "define", "nm": nm, "params": params, "ret": fam.tb.sort(b), "b": b})
            for t, nm in mir.entries():
                cm.append({"c": "assert", "t": t, "nm": "", "inner": []})
            cm.append({"c": "check-sat"})
            out.append(("f%d" % k, cm))
            r = segs[i].split("\n")[0].strip()
        mir.step(cmd, r)
    return out

def cnf_history(g, rng, n_atoms=6, levels=4):
    """clause-level incremental history: base-level units, then per level a batch of short clauses (some already
    satisfied by the units, some dense over two or three atoms so that refuting them needs decisions), checks, pops"""
    tb = g.tb
    atoms = []
    for a in list(g.bools) + g.atom_pool(n_atoms):
        if a not in atoms and a not in (tb.true(), tb.false()):
            atoms.append(a)
    cmds = [{"c": "assert", "t": b, "nm": "", "inner": []} for b in g.box_asserts()]
    def lit(a): return tb.app("not", [a]) if rng.random() < 0.5 else a
    theory = [a for a in atoms if a not in g.bools] or atoms
    units = rng.sample(theory, min(len(theory), rng.randint(1, 2)))
    if len(atoms) - len(units) < 2:
        units = units[:1]
    unit_lits = [lit(a) for a in units]
    for u in unit_lits:
        cmds.append({"c": "assert", "t": u, "nm": "", "inner": []})
    depth = 0
    for lv in range(levels):
        if rng.random() < 0.8:
            cmds.append({"c": "push", "n": 1}); depth += 1
        mode = rng.choice(["satisfied", "dense", "random", "dense"])
        rest = [a for a in atoms if a not in units]
        if mode == "satisfied":
            for _ in range(rng.randint(1, 3)):
                others = [lit(a) for a in rng.sample(rest, 2)]
                cmds.append({"c": "assert", "t": tb.app("or", [rng.choice(unit_lits)] + others), "nm": "", "inner": []})
        elif mode == "dense":
            sub = rng.sample(rest, 2)
            combos = [(False, False), (False, True), (True, False), (True, True)]
            rng.shuffle(combos)
            for sa, sb in combos[:rng.choice([3, 4, 4])]:
                la = tb.app("not", [sub[0]]) if sa else sub[0]
                lb = tb.app("not", [sub[1]]) if sb else sub[1]
                cmds.append({"c": "assert", "t": tb.app("or", [la, lb]), "nm": "", "inner": []})
        else:
            for _ in range(rng.randint(2, 5)):
                k = min(len(atoms), rng.choice([2, 3]))
                cmds.append({"c": "assert", "t": tb.app("or", [lit(a) for a in rng.sample(atoms, k)]), "nm": "", "inner": []})
        cmds.append({"c": "check-sat"})
        if rng.random() < 0.3:
            cmds.append({"c": "check-sat"})
        if depth > 0 and rng.random() < 0.6:
            cmds.append({"c": "pop", "n": 1}); depth -= 1
    cmds.append({"c": "check-sat"})
    return cmds

def b_incremental(job):
    """C04: incremental script with queries between checks vs fresh solver per check."""
    rng = random.Random(job["seed"])
    g = G.Gen(rng, job["logic"], nnum=job.get("nnum", 3), maxconst=job.get("maxconst", 4))
    if job.get("mode") == "cnf":
        cfg = job.get("cfg", "c0")
        opts = _opts(rng.choice(["c0", "c0", "cores", "proofs"])) + _opts(cfg)
        cmds = G.preamble(g, opts) + cnf_history(g, rng, n_atoms=job.get("n_atoms", 6))
        fam = C.Family(g)
        run = fam.add_run("s", cfg, "main", cmds)
        for sid, cm in fresh_variants(fam, run, g, _opts(cfg)):
            fam.add_run(sid, cfg, "fresh", cm)
        return _result(fam, job)
    track = job.get("track", rng.choice(["models", "cores", "itp", "proofs", "none"]))
    if g.arr and track == "models":
        track = "none"
    if track == "itp" and (g.arr or g.dl):
        track = "cores"
    queries = []
    p_named = 0.0
    opts = []
    if track == "models":
        queries = [{"c": "get-model"}]; opts = _opts("models")
        if g.bools:
            queries.append({"c": "get-value", "ts": [g.bools[0]]})
    elif track == "cores":
        queries = [{"c": "get-unsat-core"}]; opts = _opts("cores"); p_named = 0.7
    elif track == "itp":
        opts = _opts("itp"); p_named = 1.0
    elif track == "proofs":
        opts = _opts("proofs")
    cfg = job.get("cfg", "c0")
    opts = opts + _opts(cfg)
    if job.get("mode") == "reenter":
        body = G.reenter_history(g, rng, queries=[q for q in queries if q["c"] != "get-unsat-core"] if track != "cores" else queries)
    else:
        body = G.random_history(g, rng, n_assert=job.get("n_assert", 7), p_named=p_named, queries=queries,
                                max_depth=3, fdepth=2, min_checks=2)
    if track == "itp" and job.get("mode") != "reenter":
        body = add_itp_queries(body, rng)
    cmds = G.preamble(g, opts) + body
    fam = C.Family(g)
    run = fam.add_run("s", cfg, "main", cmds)
    for sid, cm in fresh_variants(fam, run, g, _opts(cfg)):
        fam.add_run(sid, cfg, "fresh", cm)
    return _result(fam, job)

def add_itp_queries(body, rng):
    """after each check-sat insert a get-interpolants over the names active at that point
    (answered only when the check was unsat; otherwise an error that leaves the state alone)"""
    out = []
    mir = C.Mirror()
    for cmd in body:
        out.append(cmd)
        mir.step(cmd, "ok")
        if cmd["c"] == "check-sat":
            names = mir.top_names()
            if len(names) >= 2 and not mir.unnamed():
                k = rng.randint(1, len(names) - 1)
                sh = names[:]
                rng.shuffle(sh)
                out.append({"c": "get-interpolants", "groups": [sorted(sh[:k]), sorted(sh[k:])]})
    return out

# ------------------------------------------------------------------ configurations
def b_configs(job):
    """C05: the same script under several configurations and logic embeddings."""
    rng = random.Random(job["seed"])
    g = G.Gen(rng, job["logic"], nnum=job.get("nnum", 3), maxconst=job.get("maxconst", 4))
    if job.get("mode") == "dlgraph":
        body = G.dlgraph_history(g, rng)
    elif job.get("mode") == "diamond":
        body = G.diamond_history(g, rng)
    elif job.get("mode") == "guarded":
        body = G.guarded_history(g, rng)
    elif job.get("mode") == "eqsys":
        body = G.eqsys_history(g, rng)
    elif job.get("mode") == "tower":
        body = G.tower_history(g, rng)
    elif job.get("mode") == "cnf":
        # clause sets over few, closely related atoms (small constants: equal and opposite bounds, zero-weight cycles)
        body = cnf_history(g, rng, n_atoms=job.get("n_atoms", 7), levels=job.get("levels", 4))
    else:
        body = G.random_history(g, rng, n_assert=job.get("n_assert", 5), fdepth=2, define_funs=True)
    haspush = any(c["c"] in ("push", "pop") for c in body)
    fam = C.Family(g)
    fam.add_run("s", "c0", "main", G.preamble(g, _opts("c0")) + body)
    for cfg in job["cfgs"]:
        if cfg == "noinc" and haspush:
            continue
        if cfg in ("itp", "proofs") and g.arr:
            continue
        if cfg.startswith("embed"):
            tgt = EMBED.get(job["logic"])
            if not tgt:
                continue
            fam.add_run("s", "embed:" + tgt, "cfg", _with_logic(G.preamble(g, []), tgt) + body)
            continue
        # the pure lookahead engine is known not to return on many instances (KF12): a shorter bound keeps the
        # check affordable; every other configuration gets the full bound
        to = min(job.get("timeout", 20), 6) if cfg == "la" else job.get("timeout", 20)
        fam.add_run("s", cfg, "cfg", G.preamble(g, _opts(cfg)) + body, timeout=to)
    # towers are huge as trees: the kernel does not evaluate them, the family is judged on returning and on agreement
    return _result(fam, job, mon=job.get("mode") != "tower")

BUILDERS = {"answers": b_answers, "models": b_models, "incremental": b_incremental, "configs": b_configs}

def build(job):
    import engine, termsdrv, tsolverdrv, ratdrv, stopdrv, threadsdrv, numlit, namesdrv  # register their builders
    try:
        return BUILDERS[job["builder"]](job)
    except Exception as ex:
        import traceback
        return {"error": traceback.format_exc(), "job": job}

# ------------------------------------------------------------------ unsat-biased named scripts
def unsat_biased_body(g, rng, n_named=4, p_named=0.8, nested=True, histories=True, queries=(), n_atoms=3,
                      reintroduce=True, defs=False):
    """assertions made of few atoms so that unsat is likely; names at top level and inside terms;
    push/pop with names on popped levels and names re-introduced afterwards"""
    tb = g.tb
    atoms = g.atom_pool(n_atoms)
    cmds = []
    for b in g.box_asserts():
        cmds.append({"c": "assert", "t": b, "nm": "", "inner": []})
    nn = [0]
    popped_names = []
    level_names = [[]]
    def lit():
        a = rng.choice(atoms)
        return tb.app("not", [a]) if rng.random() < 0.5 else a
    def small_formula():
        x = rng.random()
        if x < 0.35:
            return lit()
        if x < 0.85:
            a1, a2 = rng.sample(atoms, 2) if len(atoms) >= 2 else (atoms[0], atoms[0])
            l1 = tb.app("not", [a1]) if rng.random() < 0.5 else a1
            l2 = tb.app("not", [a2]) if rng.random() < 0.5 else a2
            return tb.app("or" if x < 0.75 else "and", [l1, l2])
        return g.formula(atoms, 1)
    def fresh_name():
        if reintroduce and popped_names and rng.random() < 0.5:
            return popped_names.pop(0)
        nn[0] += 1
        return "n%d" % nn[0]
    asserted_ids = set()
    popped_formulas = []
    named_terms = set()
    allow_dups = rng.random() < 0.08
    def mk_assert():
        f = small_formula()
        for _ in range(25):
            if allow_dups or f not in asserted_ids:
                break
            f = small_formula()
        asserted_ids.add(f)
        nm, inner = "", []
        if rng.random() < p_named:
            nm = fresh_name(); level_names[-1].append(nm)
        elif nested and rng.random() < 0.4 and tb.rec(f)["k"] == "a" and tb.rec(f)["op"] in ("or", "and"):
            args = tb.rec(f)["a"]
            # a second name for a term that is itself a named assertion (an alias), when there is one
            al = [a for a in args if a in named_terms]
            sub = rng.choice(al) if al else args[0]
            n2 = fresh_name(); level_names[-1].append(n2)
            inner = [(n2, sub)]
        if nm:
            named_terms.add(f)
        return {"c": "assert", "t": f, "nm": nm, "inner": inner}
    total = 0
    depth = 0
    target = n_named + rng.randint(0, 3)
    steps = 0
    while total < target and steps < 40:
        steps += 1
        x = rng.random()
        if x < 0.6 or not histories:
            cmds.append(mk_assert()); total += 1
        elif x < 0.72 and depth < 2:
            cmds.append({"c": "push", "n": 1}); depth += 1; level_names.append([])
            if rng.random() < 0.25:
                # a level that is popped before any check-sat has looked at its assertions
                for _ in range(rng.randint(1, 2)):
                    cmds.append(mk_assert())
                if rng.random() < 0.5 and total >= 2:
                    cmds.insert(len(cmds) - 1, {"c": "check-sat"})
                    for q in queries:
                        cmds.insert(len(cmds) - 1, dict(q))
                popped_formulas.extend(c_["t"] for c_ in cmds[-2:] if c_["c"] == "assert")
                cmds.append({"c": "pop", "n": 1}); depth -= 1
                popped_names += level_names.pop()
        elif x < 0.82 and depth > 0:
            popped_formulas.extend(c_["t"] for c_ in cmds[-4:] if c_["c"] == "assert")
            cmds.append({"c": "pop", "n": 1}); depth -= 1
            popped_names += level_names.pop()
            if popped_formulas and rng.random() < 0.4:
                # a differently written formula that the term constructors turn into a popped one
                f0 = rng.choice(popped_formulas)
                r0 = tb.rec(f0)
                if r0["k"] == "a" and r0["op"] in ("and", "or") and len(r0["a"]) >= 2:
                    a_ = list(r0["a"])
                    f1 = tb.app(r0["op"], [a_[-1], tb.app(r0["op"], a_[:-1]) if len(a_) > 2 else a_[0]]) if rng.random() < 0.6 else tb.app(r0["op"], a_[::-1])
                else:
                    f1 = tb.app("and", [f0, tb.true()]) if rng.random() < 0.5 else tb.app("or", [f0, tb.false()])
                nm_ = fresh_name() if rng.random() < p_named else ""
                if nm_: level_names[-1].append(nm_)
                cmds.append({"c": "assert", "t": f1, "nm": nm_, "inner": []}); total += 1
        elif total >= 2:
            cmds.append({"c": "check-sat"})
            for q in queries:
                cmds.append(dict(q))
    cmds.append({"c": "check-sat"})
    for q in queries:
        cmds.append(dict(q))
    if histories and depth > 0 and rng.random() < 0.7:
        cmds.append({"c": "pop", "n": 1}); popped_names += level_names.pop()
        cmds.append(mk_assert())
        cmds.append(mk_assert())
        cmds.append({"c": "check-sat"})
        for q in queries:
            cmds.append(dict(q))
    return cmds

def b_cores(job):
    """C06 C07 (C21): unsat cores, named / full / minimal."""
    rng = random.Random(job["seed"])
    g = G.Gen(rng, job["logic"], box=True)
    opts = _opts("cores")
    if job.get("minimal"):
        opts.append((":minimal-unsat-cores", "true"))
    if job.get("full"):
        opts.append((":print-cores-full", "true"))
    if job.get("globaldecl"):
        opts.append((":global-declarations", "true"))
    q = [{"c": "get-unsat-core"}]
    if job.get("assign"):
        opts += _opts("models", "assign"); q = [{"c": "get-unsat-core"}, {"c": "get-model"}, {"c": "get-assignment"}]
    body = unsat_biased_body(g, rng, n_named=job.get("n_named", 4), p_named=job.get("p_named", 0.75), queries=q,
                             histories=job.get("histories", True), n_atoms=job.get("n_atoms", 3))
    if rng.random() < job.get("p_hidden_unsat", 0.2):
        # the unnamed assertions are contradictory on their own, but a refutation is found earlier through a named
        # assertion: the minimal named core is empty
        tb = g.tb
        a, b = rng.sample(g.bools, 2)
        na = tb.app("not", [a])
        first_check = next((i for i, c in enumerate(body) if c["c"] == "check-sat"), len(body))
        # (no formula twice: the same formula asserted under a name and without one is a different, known matter)
        tail = rng.choice([[tb.app("or", [na, b]), tb.app("not", [b])], [tb.app("or", [na, tb.app("not", [b])]), b]])
        ins = [{"c": "assert", "t": na, "nm": "hz%d" % rng.randint(1, 9), "inner": []}] + \
              [{"c": "assert", "t": f, "nm": "", "inner": []} for f in tail]
        if rng.random() < 0.3:
            rng.shuffle(ins)
        body[first_check:first_check] = ins
        body.insert(rng.choice([0, 0, max(0, first_check - 1)]), {"c": "assert", "t": a, "nm": "", "inner": []})
    if job.get("minimal") and g.bools and rng.random() < 0.45:
        # alternative named reasons for the same conflict: a named assertion gets a stronger or a weaker twin under
        # another name (neither is the same formula), so a core can go through either and minimisation has a choice
        tb = g.tb
        named = [i for i, c in enumerate(body) if c["c"] == "assert" and c.get("nm") and not c.get("inner")]
        if named:
            i = rng.choice(named)
            f = body[i]["t"]
            x = rng.choice(g.bools)
            twin = tb.app(rng.choice(["and", "and", "or"]), [f, x if rng.random() < 0.7 else tb.app("not", [x])])
            used = {c.get("nm") for c in body}
            nm = next(n for n in ("tw%d" % k for k in range(1, 50)) if n not in used)
            body.insert(i + rng.choice([0, 1]), {"c": "assert", "t": twin, "nm": nm, "inner": []})
    if job.get("minimal") and len(g.bools) >= 2 and rng.random() < 0.25:
        # two named reasons for one conflict, one implied by the other: (and a b), a, (not a) under three names, in any
        # order, before the first check: every sound core contains (not a) and one of the other two
        tb = g.tb
        a, b = rng.sample(g.bools, 2)
        if rng.random() < 0.5:
            a = tb.app("not", [a])
        trio = [tb.app("and", [a, b]), a, tb.app("not", [a])]
        used = {c.get("nm") for c in body}
        if not any(c["c"] == "assert" and c["t"] in trio for c in body) and not ({"ta", "tb", "tc"} & used):
            ins = [{"c": "assert", "t": t, "nm": nm, "inner": []} for t, nm in zip(trio, ("ta", "tb", "tc"))]
            if rng.random() < 0.6:
                rng.shuffle(ins)
            first_check = next((i for i, c in enumerate(body) if c["c"] == "check-sat"), len(body))
            k = rng.randint(0, first_check)
            # not inside a level that is popped before the first check
            if not any(c["c"] in ("push", "pop") for c in body[:first_check]):
                body[k:k] = ins
    cfg = job.get("cfg", "c0")
    cmds = G.preamble(g, opts + _opts(cfg)) + body
    fam = C.Family(g)
    fam.add_run("s", cfg, "main", cmds)
    return _result(fam, job)

def farkas_system(g, rng):
    """an unsatisfiable conjunction of linear inequalities built from its Farkas certificate: rows over A-local and
    shared variables whose local parts cancel under positive weights, rows over B-local and shared variables likewise,
    and one closing row that makes the weighted sum a negative constant.  Every row is a named assertion."""
    tb, S = g.tb, g.num
    vs = list(g.nums)
    rng.shuffle(vs)
    nl = rng.choice([2, 2, 3])
    la, lb, sh = vs[:nl], vs[nl:nl + 2], vs[nl + 2:]
    def lin(coefs, const):
        parts = []
        for v, c in coefs.items():
            if c == 0: continue
            parts.append(v if c == 1 else tb.app("*", [tb.num(c, S), v]))
        if const != 0 or not parts:
            parts.append(tb.num(const, S))
        return parts[0] if len(parts) == 1 else tb.app("+", parts)
    rows = []      # (coefs dict, const, weight)
    def block(local, nrows):
        blk = []
        # two local variables that only occur together, with proportional coefficients (u + w, 2u + 2w, ...):
        # the matrix of local columns has dependent rows, its rank is smaller than the number of local variables
        pair = (local[0], local[1], rng.choice([1, 1, 2])) if len(local) >= 2 and rng.random() < 0.35 else None
        for _ in range(nrows):
            co = {v: rng.choice([-2, -1, 1, 1, 2]) for v in rng.sample(local, rng.randint(1, len(local)))}
            if pair:
                u_, w_, k_ = pair
                if u_ in co or w_ in co:
                    cu = co.get(u_, co.get(w_))
                    co[u_] = cu; co[w_] = cu * k_
            for v in rng.sample(sh, rng.randint(1, min(2, len(sh)))):
                co[v] = rng.choice([-2, -1, 1, 2])
            blk.append((co, rng.randint(-2, 2), rng.choice([1, 1, 2, 3])))
        # closing row of the block: cancels the local variables, weight 1
        co = {}
        for c0, _, w in blk:
            for v in local:
                co[v] = co.get(v, 0) - w * c0.get(v, 0)
        for v in rng.sample(sh, rng.randint(1, min(2, len(sh)))):
            co[v] = rng.choice([-1, 1, 2])
        blk.append((co, rng.randint(-2, 2), 1))
        return blk
    A = block(la, rng.randint(2, 4))
    B = block(lb, rng.randint(1, 2))
    co, const = {}, 0
    for c0, k0, w in A + B:
        for v in sh:
            co[v] = co.get(v, 0) - w * c0.get(v, 0)
        const -= w * k0
    # strict rows: with at least one of them a weighted sum of exactly 0 is already absurd (0 < 0): zero slack
    strict = set(i for i in range(len(A) + len(B) + 1) if rng.random() < 0.25) if rng.random() < 0.5 else set()
    B.append((co, const - (0 if strict and rng.random() < 0.7 else rng.choice([1, 1, 2])), 1))
    cmds, na, nb = [], [], []
    for i, (c0, k0, _) in enumerate(A + B):
        t = lin(c0, k0)
        if i in strict:
            f = tb.app(">", [t, tb.num(0, S)]) if rng.random() < 0.7 else tb.app("<", [tb.num(0, S), t])
        else:
            f = tb.app(">=", [t, tb.num(0, S)]) if rng.random() < 0.7 else tb.app("<=", [tb.num(0, S), t])
        nm = ("a%d" if i < len(A) else "b%d") % i
        (na if i < len(A) else nb).append(nm)
        cmds.append({"c": "assert", "t": f, "nm": nm, "inner": []})
    rng.shuffle(cmds)
    return cmds, na, nb

def b_itp(job):
    """C08 C09: interpolants for random A/B splits and sequences."""
    rng = random.Random(job["seed"])
    opts = _opts("itp")
    for k, v in job.get("itp_opts", []):
        opts.append((k, v))
    if job.get("mode") == "farkas":
        g = G.Gen(rng, job["logic"], box=False, nnum=rng.choice([6, 7, 8]))
        body, na, nb = farkas_system(g, rng)
        ngroups = job.get("groups", 2)
        out = body + [{"c": "check-sat"}]
        allnames = na + nb
        if ngroups == 2:
            out.append({"c": "get-interpolants", "groups": [sorted(na), sorted(nb)]})
            out.append({"c": "get-interpolants", "groups": [sorted(nb), sorted(na)]})
        for _ in range(job.get("splits", 2)):
            sh = allnames[:]
            if rng.random() < 0.5:
                rng.shuffle(sh)
            cuts = sorted(rng.sample(range(1, len(sh)), ngroups - 1))
            out.append({"c": "get-interpolants", "groups": [sorted(sh[a:b]) for a, b in zip([0] + cuts, cuts + [len(sh)])]})
        cfg = job.get("cfg", "c0")
        fam = C.Family(g)
        fam.add_run("s", cfg, "main", G.preamble(g, opts + _opts(cfg)) + out)
        return _result(fam, job)
    # more symbols than the assertions need, so that some of them are local to one side of a split
    g = G.Gen(rng, job["logic"], box=True, nbool=job.get("nbool", rng.choice([3, 3, 6])))
    body = unsat_biased_body(g, rng, n_named=job.get("n_named", 4), p_named=1.0, nested=False,
                             histories=job.get("histories", True), n_atoms=job.get("n_atoms", rng.choice([3, 3, 5])))
    probe_groups = None
    if ngroups_ok(job) and len(g.bools) >= 2 and rng.random() < 0.35:
        # a symbol that is local to one side: q occurs on a level that is popped (before or after a check-sat looked at
        # it), later only in assertions of group A; the refutation resolves on q, the interpolant must not mention it
        tb = g.tb
        q, t = g.bools[-1], g.bools[0]
        pre = [{"c": "push", "n": 1}]
        if rng.random() < 0.5:
            pre += [{"c": "assert", "t": tb.app("or", [t, tb.app("not", [g.bools[1]])]), "nm": "lp0", "inner": []}, {"c": "check-sat"}]
        other = rng.choice(g.bools[1:-1]) if len(g.bools) > 2 else tb.app("not", [t])     # not the formula asserted later
        # the popped assertion is q itself or a formula over it (partition marks are put on the asserted term at once,
        # on its sub-terms only when the frame is simplified)
        pre += [{"c": "assert", "t": rng.choice([q, q, tb.app("or", [q, other])]), "nm": "lp1", "inner": []}, {"c": "pop", "n": 1}]
        tail = [{"c": "assert", "t": tb.app("or", [q, t]), "nm": "lpa", "inner": []},
                {"c": "assert", "t": tb.app("or", [tb.app("not", [q]), t]), "nm": "lpb", "inner": []},
                {"c": "assert", "t": tb.app("not", [t]), "nm": "lpc", "inner": []}]
        # drop assertions of the random part that mention q, keep the rest
        body = [c for c in body if not (c["c"] == "assert" and q in tb.subterms(c["t"]))]
        # no formula twice in these families (copies of a formula are a known, different matter)
        seen_f, body2 = set(), []
        for c in body:
            if c["c"] == "assert":
                if c["t"] in seen_f:
                    continue
                seen_f.add(c["t"])
            body2.append(c)
        body = body2
        last_check = max((i for i, c in enumerate(body) if c["c"] == "check-sat"), default=len(body) - 1)
        depth_ok = True
        body = pre + body[:last_check] + tail + body[last_check:]
        probe_groups = [["lpa", "lpb"], ["lpc"]]
    # after every check-sat: interpolation requests over the names active there
    out = []
    mir = C.Mirror()
    ngroups = job.get("groups", 2)
    for cmd in body:
        out.append(cmd)
        mir.step(cmd, "ok")
        if cmd["c"] == "check-sat":
            names = mir.top_names()
            if len(names) >= ngroups:
                for _ in range(job.get("splits", 2)):
                    sh = names[:]
                    rng.shuffle(sh)
                    cuts = sorted(rng.sample(range(1, len(sh)), ngroups - 1))
                    groups = [sorted(sh[a:b]) for a, b in zip([0] + cuts, cuts + [len(sh)])]
                    out.append({"c": "get-interpolants", "groups": groups})
                if probe_groups and all(n in names for grp in probe_groups for n in grp):
                    rest = sorted(n for n in names if n not in ("lpa", "lpb", "lpc"))
                    if ngroups == 2:
                        out.append({"c": "get-interpolants", "groups": [probe_groups[0], sorted(probe_groups[1] + rest)]})
                    elif rest:
                        out.append({"c": "get-interpolants", "groups": [probe_groups[0], probe_groups[1], rest][:ngroups] if ngroups == 3 else
                                    [probe_groups[0], probe_groups[1]] + [[r_] for r_ in rest[:ngroups - 2]]})
    cfg = job.get("cfg", "c0")
    cmds = G.preamble(g, opts + _opts(cfg)) + out
    fam = C.Family(g)
    fam.add_run("s", cfg, "main", cmds)
    return _result(fam, job)

def ngroups_ok(job):
    return job.get("groups", 2) in (2, 3)

# ------------------------------------------------------------------ rejected commands
def bad_commands(g, rng, depth_hint=0):
    """commands that must be rejected, as raw text with the reason"""
    tb = g.tb
    out = []
    out.append(("(assert (and p0 undeclared_sym))", "unknown symbol"))
    out.append(("(assert (+ p0 1))", "ill-sorted"))
    out.append(("(assert (! (or p0 undeclared_sym) :named zz1))", "unknown symbol under a name"))
    out.append(("(assert (or (! p1 :named zz2) undeclared_sym))", "unknown symbol after a nested name"))
    out.append(("(pop 7)", "pop deeper than the stack"))
    out.append(("(declare-fun q9 () UnknownSort)", "unknown sort"))
    out.append(("(define-fun d9 ((a Bool)) Bool (and a undeclared_sym))", "bad definition"))
    out.append(("(define-fun d8 () Bool 3)", "definition sort mismatch"))
    out.append(("(get-value (undeclared_sym))", "unknown symbol in get-value") if False else ("(assert (not))", "arity"))
    out.append(("(get-model)", "wrong mode"))
    out.append(("(set-logic QF_LRA)", "logic set twice"))
    out.append(("(assert 5)", "non-Boolean assertion"))
    if g.num:
        out.append(("(assert (+ x 1))", "non-Boolean assertion"))
        out.append(("(assert (ite p0 x y))", "non-Boolean assertion"))
    if g.uf:
        out.append(("(assert (f u0))", "non-Boolean assertion"))
    if g.num:
        out.append(("(assert (= x p0))", "ill-sorted equality"))
        out.append(("(assert (> x))", "arity"))
    if g.uf:
        out.append(("(assert (= (f u0 u1) u0))", "arity"))
        out.append(("(assert (P p0))", "ill-sorted argument"))
    return out

def b_reject(job):
    """C19: a valid script, and the same script with rejected commands inserted."""
    rng = random.Random(job["seed"])
    g = G.Gen(rng, job["logic"])
    kind = rng.choice(["models", "cores", "plain", "itp"])
    opts, queries, p_named = [], [], 0.0
    if g.arr and kind == "models":
        kind = "plain"
    if kind == "itp" and (g.arr or g.dl or job["logic"] not in ("QF_BOOL", "QF_UF", "QF_LRA", "QF_LIA")):
        kind = "cores"
    if kind == "models":
        opts = _opts("models"); queries = [{"c": "get-model"}]
    elif kind == "cores":
        opts = _opts("cores"); queries = [{"c": "get-unsat-core"}]; p_named = 0.7
    if kind == "cores":
        body = unsat_biased_body(g, rng, queries=queries, p_named=p_named)
    elif kind == "itp":
        # interpolation requests refer to assertions by position: a rejected command must not shift anything
        opts = _opts("itp")
        body = add_itp_queries(unsat_biased_body(g, rng, p_named=1.0, nested=False), rng)
    else:
        body = G.random_history(g, rng, n_assert=5, queries=queries, min_checks=2, p_define=0.7)
    pre = G.preamble(g, opts)
    clean = pre + body
    for i, c in enumerate(clean, 1):
        c["ci"] = i
    bads = bad_commands(g, rng)
    dirty = [dict(c) for c in pre]
    nbad = rng.randint(1, 3)
    positions = rng.sample(range(len(body) + 1), min(nbad, len(body) + 1))
    # also right after a push: a rejected command on a deeper level than the state it collides with
    positions += [i + 1 for i, c in enumerate(body) if c["c"] == "push" and rng.random() < 0.5]
    positions = sorted(set(positions))
    forced = []
    if kind == "itp":
        # a rejected assert (well-formed, not Boolean) before the assertions that later queries refer to by position
        cand = [t_ for t_, w_ in bads if w_ == "non-Boolean assertion"]
        first_assert = next((i for i, c in enumerate(body) if c["c"] == "assert"), 0)
        at = rng.choice([first_assert, first_assert + 1, rng.randint(0, len(body))])
        positions = sorted(set(positions + [at]))
        forced = [(at, rng.choice(cand))]
    used_names = set()
    scopes = [{"defs": [], "names": []}]          # what the script has introduced, per push level
    for i, c in enumerate(body):
        while positions and positions[0] == i:
            positions.pop(0)
            text, why = rng.choice(bads)
            if forced and forced[0][0] == i:
                text, why = forced.pop(0)[1], "non-Boolean assertion"
                dirty.append({"c": "raw", "text": text, "must": "reject", "why": why, "ci": 0})
                continue
            # rejected commands that collide with what is in scope: a second definition of a defined function (at
            # the same or at a deeper level), a second use of an active name
            indefs = [(d, lv) for lv, sc in enumerate(scopes) for d in sc["defs"]]
            innames = [n for sc in scopes for n in sc["names"]]
            x = rng.random()
            if indefs and x < 0.45:
                d, lv = rng.choice(indefs)
                text = G.render_cmd(d, g.tb)
                why = "function defined twice (first at level %d, now at level %d)" % (lv, len(scopes) - 1)
            elif innames and x < 0.6:
                text, why = "(assert (! p0 :named %s))" % G.quote_sym(rng.choice(innames)), "name in use"
            if text == "(get-model)" and (kind != "models" or (i > 0 and body[i - 1]["c"] in ("check-sat", "get-model"))):
                text, why = "(pop 9)", "pop deeper than the stack"
            if "zz1" in text or "zz2" in text:
                nm = "zz1" if "zz1" in text else "zz2"
                if nm in used_names:
                    text, why = "(assert (and p0 undeclared_sym))", "unknown symbol"
                used_names.add(nm)
            dirty.append({"c": "raw", "text": text, "must": "reject", "why": why, "ci": 0})
        dirty.append(dict(c))
        if c["c"] == "push":
            scopes += [{"defs": [], "names": []} for _ in range(c.get("n", 1))]
        elif c["c"] == "pop":
            del scopes[max(1, len(scopes) - c.get("n", 1)):]
        elif c["c"] == "define":
            scopes[-1]["defs"].append(c)
        elif c["c"] == "assert":
            scopes[-1]["names"] += ([c["nm"]] if c.get("nm") else []) + [n for n, _ in c.get("inner", [])]
    fam = C.Family(g)
    fam.add_run("s", "c0", "main", clean)
    fam.add_run("s", "c0", "reject", dirty, base="s")
    return _result(fam, job)

# ------------------------------------------------------------------ names and scopes
def b_names(job):
    """C21: names and definitions across push/pop, with and without :global-declarations."""
    rng = random.Random(job["seed"])
    g = G.Gen(rng, job["logic"], box=True)
    tb = g.tb
    glob = job.get("globaldecl", False)
    mode = job.get("mode", rng.choice(["cores", "assign", "itp"]))
    if g.arr or g.dl:
        mode = "cores" if mode == "itp" else mode
    opts = []
    if glob:
        opts.append((":global-declarations", "true"))
    if mode == "cores":
        opts += _opts("cores"); q = [{"c": "get-unsat-core"}]
    elif mode == "assign":
        opts += _opts("models", "assign"); q = [{"c": "get-model"}, {"c": "get-assignment"}]
    else:
        opts += _opts("itp"); q = []
    atoms = g.atom_pool(3)
    def lit():
        a = rng.choice(atoms)
        return tb.app("not", [a]) if rng.random() < 0.5 else a
    cmds = []
    # define-fun at level 1, popped, re-defined
    body_d = tb.app("or", [g.bools[0], g.bools[1]])
    cmds.append({"c": "assert", "t": lit(), "nm": "a0", "inner": []})
    cmds.append({"c": "push", "n": 1})
    cmds.append({"c": "define", "nm": "fd", "params": [], "ret": BOOL, "b": body_d})
    g.sig.defs["fd"] = ([], body_d, BOOL)
    cmds.append({"c": "assert", "t": tb.app("or", [tb.var("fd", BOOL), lit()]), "nm": "a1", "inner": []})
    cmds.append({"c": "assert", "t": tb.app("or", [lit(), lit()]), "nm": "", "inner": [("a2", None)]})
    # fix inner: name the first disjunct
    last = cmds[-1]; last["inner"] = [("a2", tb.rec(last["t"])["a"][0])]
    cmds.append({"c": "check-sat"}); cmds += [dict(x) for x in q]
    if mode == "itp":
        cmds.append({"c": "get-interpolants", "groups": [["a0"], ["a1"]]})
    cmds.append({"c": "pop", "n": 1})
    # after the pop: a1, a2, fd are gone (unless global)
    f_again = lit()
    cmds.append({"c": "assert", "t": tb.app("not", [f_again]) if rng.random() < 0.5 else f_again, "nm": "a1", "inner": [],
                 "must": "reject" if glob else ""})
    body_d2 = tb.app("and", [g.bools[0], g.bools[1]])
    cmds.append({"c": "define", "nm": "fd", "params": [], "ret": BOOL, "b": body_d2, "must": "reject" if glob else ""})
    if not glob:
        cmds.append({"c": "assert", "t": tb.app("not", [tb.var("fd", BOOL)]), "nm": "a3", "inner": []})
    else:
        cmds.append({"c": "assert", "t": tb.app("not", [tb.var("fd", BOOL)]), "nm": "a3", "inner": []})
    neg = cmds[0]["t"]
    cmds.append({"c": "assert", "t": tb.app("not", [neg]), "nm": "a4", "inner": []})
    cmds.append({"c": "check-sat"}); cmds += [dict(x) for x in q]
    if mode == "itp":
        cmds.append({"c": "get-interpolants", "groups": [["a0"], ["a3", "a4"] + ([] if glob else ["a1"])]})
        # a request over a popped name must not be accepted as if it were current
        cmds.append({"c": "get-interpolants", "groups": [["a0", "a2"], ["a4"]], "must": "" if glob else "reject"})
    cmds.append({"c": "push", "n": 1})
    cmds.append({"c": "assert", "t": lit(), "nm": "a2", "inner": [], "must": "reject" if glob else ""})
    cmds.append({"c": "check-sat"}); cmds += [dict(x) for x in q]
    cmds.append({"c": "pop", "n": 1})
    cmds.append({"c": "check-sat"}); cmds += [dict(x) for x in q]
    full = G.preamble(g, opts) + cmds
    fam = C.Family(g)
    fam.add_run("s", "glob" if glob else "c0", "main", full)
    return _result(fam, job)

BUILDERS.update({"cores": b_cores, "itp": b_itp, "reject": b_reject, "names": b_names})

# ------------------------------------------------------------------ pipe = file (C20), reproducibility (C23)
WEIRD_NAMES = ["a;b", "x(y", "p)q", "s t", "q\"r", "(", ");(", "semi;colon)paren", "0start", "let", "a.b!c"]
def relayout(text, rng):
    """same token sequence, different layout: comments with parentheses / quotes / bars, odd line breaks"""
    comments = ["; plain comment", "; ( unbalanced", "; ) closing", "; \"quote", "; |bar", ";;; (exit)", "; )))(((",
                "; \\", ";"]
    out = []
    for line in text.split("\n"):
        if not line.strip():
            continue
        x = rng.random()
        if x < 0.25:
            out.append(rng.choice(comments))
        if x < 0.5 and " " in line and '"' not in line and "|" not in line:
            # break the command at a random space, maybe with a comment in between
            i = rng.choice([k for k, c in enumerate(line) if c == " "])
            out.append(line[:i] + (" " + rng.choice(comments) if rng.random() < 0.5 else ""))
            out.append("   " + line[i + 1:])
        elif x < 0.6 and out and not out[-1].lstrip().startswith(";") and ";" not in out[-1]:
            out[-1] = out[-1] + " " + line          # two commands on one line
        else:
            out.append(line + (" " + rng.choice(comments) if rng.random() < 0.2 else ""))
    return "\n".join(out) + ("\n" if rng.random() < 0.8 else "")

def b_pipe(job):
    """C20: one script as a file and through the pipe with several chunk schedules."""
    rng = random.Random(job["seed"])
    g = G.Gen(rng, job["logic"])
    tb = g.tb
    # symbols that need quoting
    weird = rng.sample(WEIRD_NAMES, 3)
    wv = []
    for nm in weird:
        g._declare(nm, (), BOOL); wv.append(tb.var(nm, BOOL)); g.bools.append(wv[-1])
    body = G.random_history(g, rng, n_assert=4, queries=[{"c": "get-model"}] if not g.arr else [], fdepth=1)
    echos = ['plain', 'with ) paren', 'semi ; colon', '( open', 'bar | bar', ') ; ( | all', 'two  spaces', '', '', ' ']
    esc = ['back\\\\slash', 'quote \\" inside ) it', 'C:\\\\', '\\"(', 'a\\\\\\"b ; (']
    cmds = G.preamble(g, _opts("models") if not g.arr else [])
    if job.get("escapes"):
        cmds.insert(rng.randint(0, len(cmds)), {"c": "echo", "s": rng.choice(esc)})
    for c in body:
        cmds.append(c)
        if rng.random() < 0.4:
            cmds.append({"c": "echo", "s": rng.choice(echos + (esc if job.get("escapes") else []))})
    text = relayout(G.render_script(cmds, tb), rng)
    special = [i + 1 for i, ch in enumerate(text) if ch in '\\"|;']
    if job.get("escapes") and "\\" in text:
        # the scanner fills a buffer of 15, then 16, 32, ... bytes when input is available: put the first backslash on
        # the last byte of one of those reads
        b = text.index("\\")
        target = next((t for t in (14, 30, 62, 126, 254, 510) if t >= b), None)
        if target is not None and rng.random() < 0.7:
            text = " " * (target - b) + text
            special = [i + 1 for i, ch in enumerate(text) if ch in '\\"|;']
    fam = C.Family(g)
    fam.add_run("s", "c0", "main", cmds, io="file", text=text)
    scheds = [[1], [2], [3], [7], [16], [5, 1, 11], [64], None]
    # cuts right after the characters that change the scanner's state (backslash, quote, bar, semicolon), with pauses
    if special:
        cuts = sorted(set(rng.sample(special, min(len(special), 25))))
        scheds_x = [["cuts"] + cuts]
        if "\\" in text:
            scheds_x.append(["cuts"] + [i + 1 for i, ch in enumerate(text) if ch == "\\"][:30])
    else:
        scheds_x = []
    for sc in (scheds if job.get("all_chunks") else rng.sample(scheds, 3)) + scheds_x:
        fam.add_run("s", "c0", "pipe", cmds, io="pipe", chunks=sc, text=text)
    return _result(fam, job, mon=False)

def exotic_script(rng):
    """scripts that use the corners of the input language whose echo/printing code is rarely visited: sorts with
    parameters, as-qualified identifiers, echo, get-info/get-option, annotated terms in get-value"""
    L = ["(set-option :produce-models true)"]
    if rng.random() < 0.5: L.append("(set-option :produce-assignments true)")
    L += ["(set-logic %s)" % rng.choice(["QF_UF", "QF_UFLIA", "QF_UFLRA"]), "(declare-sort U 0)", "(declare-sort Pair 2)", "(declare-sort Box 1)",
          "(declare-fun p () (Pair U Bool))", "(declare-fun q () (Pair U Bool))", "(declare-fun b () (Box (Pair U U)))",
          "(declare-fun c () U)", "(declare-fun d () U)", "(declare-fun fst ((Pair U Bool)) U)", "(declare-fun unbox ((Box (Pair U U))) U)",
          "(declare-fun r () Bool)"]
    facts = ["(assert (= (fst p) c))", "(assert (not (= p q)))", "(assert (= (unbox b) d))", "(assert (! (or r (= c d)) :named n1))",
             "(assert (= (fst (as p (Pair U Bool))) (as c U)))", "(assert (distinct c d (fst q)))"]
    rng.shuffle(facts)
    L += facts[:rng.randint(2, 5)]
    qs = ["(get-value ((as c U) (fst p)))", "(get-value ((fst (as p (Pair U Bool)))))", "(get-value ((unbox (as b (Box (Pair U U))))))",
          "(get-value ((! (fst q) :named n2)))", "(get-value (p q b))", "(get-model)", "(get-assignment)", "(echo \"a b\")",
          "(get-info :name)", "(get-info :version)", "(get-option :produce-models)", "(get-value ((let ((z c)) (as z U))))"]
    L.append("(check-sat)")
    L += rng.sample(qs, rng.randint(2, 5))
    if rng.random() < 0.4:
        L += ["(push 1)", "(assert (= c d))", "(check-sat)"] + rng.sample(qs, 2) + ["(pop 1)", "(check-sat)"]
    return [{"c": "raw", "text": t} for t in L]

def wide_uf_itp_script(rng):
    """interpolation over functions of many arguments: congruence steps justified by several argument equalities, in
    both directions; the interpolant is a conjunction / disjunction over all of them (its order must not depend on
    anything but the input)"""
    n = rng.randint(3, 9)
    L = ["(set-option :produce-interpolants true)"]
    if rng.random() < 0.4: L.append("(set-option :interpolation-euf-algorithm %d)" % rng.choice([0, 2, 3]))
    L += ["(set-logic QF_UF)", "(declare-sort U 0)"]
    for fn in ("f", "g"):
        L.append("(declare-fun %s (%s) U)" % (fn, " ".join(["U"] * n)))
    for p_ in "abc":
        for i in range(1, n + 1):
            L.append("(declare-fun %s%d () U)" % (p_, i))
    A = lambda p_: " ".join("%s%d" % (p_, i) for i in range(1, n + 1))
    a_side = "(and (= (f %s) (g %s)) (not (= (f %s) (g %s))))" % (A("b"), A("b"), A("a"), A("a"))
    eqs = []
    for i in range(1, n + 1):
        eqs += ["(= a%d c%d)" % (i, i), "(= c%d b%d)" % (i, i)] if rng.random() < 0.8 else ["(= a%d b%d)" % (i, i)]
    if rng.random() < 0.5:
        rng.shuffle(eqs)
    b_side = "(and %s)" % " ".join(eqs)
    L += ["(assert (! %s :named A))" % a_side, "(assert (! %s :named B))" % b_side, "(check-sat)", "(get-interpolants A B)", "(get-interpolants B A)"]
    return [{"c": "raw", "text": t} for t in L]

def b_rerun(job):
    """C23: the same script twice (different environment size and working directory)."""
    rng = random.Random(job["seed"])
    g = G.Gen(rng, job["logic"])
    if rng.random() < 0.2:
        cmds = exotic_script(rng) if rng.random() < 0.6 else wide_uf_itp_script(rng)
        fam = C.Family(g)
        fam.add_run("s", "c0", "main", cmds)
        fam.add_run("s", "c0", "rerun", cmds, env={"VERIF_PAD": "x" * rng.randint(1, 5000)}, cwd="/tmp")
        fam.add_run("s", "c0", "rerun", cmds, env={"VERIF_PAD2": "y" * rng.randint(1, 9000), "LANG": "C"}, cwd="/")
        return _result(fam, job, mon=False)
    kind = rng.choice(["models", "cores", "itp", "plain"])
    if g.arr and kind in ("models", "itp"): kind = "plain"
    if g.dl and kind == "itp": kind = "cores"
    if kind == "models":
        body = G.random_history(g, rng, n_assert=5, queries=[{"c": "get-model"}]); opts = _opts("models")
    elif kind == "cores":
        body = unsat_biased_body(g, rng, queries=[{"c": "get-unsat-core"}]); opts = _opts("cores")
    elif kind == "itp":
        body = add_itp_queries(unsat_biased_body(g, rng, p_named=1.0, nested=False), rng); opts = _opts("itp")
    else:
        body = G.random_history(g, rng, n_assert=6); opts = []
    cfg = job.get("cfg", rng.choice(["c0", "seed", "la", "ghost", "picky", "proofs"]))
    if cfg in ("la", "picky", "ghost") and kind in ("itp",):
        cfg = "c0"
    o3 = opts + _opts(cfg)
    if rng.random() < 0.12:
        # option values of the wrong kind (a symbol where a Boolean or a numeral is expected)
        k = rng.choice([":produce-interpolants", ":produce-models", ":produce-unsat-cores", ":incremental", ":produce-proofs", ":verbosity"])
        o3 = [(a, b) for a, b in o3 if a != k] + [(k, "wrongkind")]
    cmds = G.preamble(g, o3) + body
    fam = C.Family(g)
    fam.add_run("s", cfg, "main", cmds)
    fam.add_run("s", cfg, "rerun", cmds, env={"VERIF_PAD": "x" * rng.randint(1, 5000)}, cwd="/tmp")
    if job.get("third"):
        fam.add_run("s", cfg, "rerun", cmds, env={"VERIF_PAD2": "y" * rng.randint(1, 9000), "LANG": "C"}, cwd="/")
    return _result(fam, job, mon=False)

# ------------------------------------------------------------------ outside the declared logic (C29)
def b_outlogic(job):
    rng = random.Random(job["seed"])
    logic = job["logic"]                      # a difference logic, or LRA/LIA for non-linear / mixing
    g = G.Gen(rng, logic, box=True)
    tb = g.tb
    S = g.num
    x, y, z = g.nums[:3]
    def c(v): return tb.num(v, S)
    bad = []
    if g.dl:
        bad.append(tb.app("<=", [tb.app("+", [x, y, z]), c(rng.randint(-3, 3))]))
        bad.append(tb.app(rng.choice(["<=", ">=", "<", "="]), [tb.app("-", [tb.app("*", [c(2), x]), y]), c(rng.randint(-3, 3))]))
        bad.append(tb.app(">=", [tb.app("+", [x, y]), c(rng.randint(-2, 4))]))
        bad.append(tb.app("=", [tb.app("*", [c(3), x]), tb.app("+", [y, c(1)])]))
        bad.append(tb.app("<", [tb.app("-", [x, y, z]), c(1)]))
        if S != REAL:
            # real-feasible, integer-infeasible: the conflict is spread over a <= / >= pair (and a difference atom)
            k = rng.choice([1, 3, -1])
            t1 = tb.app("-", [tb.app("*", [c(2), x]), tb.app("*", [c(2), y])])
            bad.append(tb.app("and", [tb.app("<=", [t1, c(k)]), tb.app(">=", [t1, c(k)])]))
            t2, r2 = tb.app("+", [x, y]), tb.app("*", [c(2), z])
            bad.append(tb.app("and", [tb.app("<=", [t2, r2]), tb.app(">=", [t2, r2]),
                                      tb.app("<=", [tb.app("-", [x, y]), c(1)]), tb.app(">=", [tb.app("-", [x, y]), c(1)])]))
            t3, r3 = tb.app("*", [c(2), x]), tb.app("*", [c(3), y])
            bad.append(tb.app("and", [tb.app("<=", [t3, r3]), tb.app(">=", [t3, r3]), tb.app(">=", [x, c(1)]), tb.app("<=", [x, c(2)])]))
            if g.uf:
                if "h" not in g.funs:
                    g._declare("h", (S,), S)
                hx, hy = tb.uf("h", [x], S), tb.uf("h", [y], S)
                t4 = tb.app("+", [hx, hy])
                bad.append(tb.app("and", [tb.app("<=", [t4, c(k)]), tb.app(">=", [t4, c(k)]),
                                          tb.app("<=", [tb.app("-", [x, y]), c(0)]), tb.app(">=", [tb.app("-", [x, y]), c(0)])]))
    else:
        bad.append(tb.app("<=", [tb.app("*", [x, y]), c(2)]))
        bad.append(tb.app("=", [tb.app("*", [x, x]), c(4)]))
        # non-linear products that carry a coefficient, sums, nested products: the linear-term normaliser sees them
        k1, k2 = rng.choice([1, 2, 3, -2]), rng.randint(-3, 6)
        rel = lambda t: tb.app(rng.choice(["=", "<=", ">=", "<"]), [t, c(k2)])
        bad.append(rel(tb.app("*", [c(k1), x, y])))
        bad.append(rel(tb.app("*", [x, tb.app("*", [c(3), y])])))
        bad.append(rel(tb.app("*", [tb.app("*", [c(2), x]), tb.app("*", [c(k1), y])])))
        bad.append(rel(tb.app("*", [c(k1), tb.app("+", [x, c(1)]), tb.app("+", [y, c(1)])])))
        bad.append(rel(tb.app("*", [tb.app("+", [x, c(1)]), c(k1), tb.app("+", [y, z])])))
        bad.append(rel(tb.app("*", [tb.app("+", [x, y]), tb.app("+", [y, c(1)]), c(1)])))
        bad.append(rel(tb.app("*", [x, tb.app("+", [y, c(2)]), c(k1)])))
        if S == REAL:
            bad.append(rel(tb.app("*", [x, tb.app("/", [y, c(2)])])))
    atoms = g.atom_pool(3)
    cmds = []
    for b in g.box_asserts():
        cmds.append({"c": "assert", "t": b, "nm": "", "inner": []})
    k = rng.randint(1, 2)
    if not g.dl and rng.random() < 0.6:
        # pin the variables so that the value of the product is determined
        for v in (x, y):
            cmds.append({"c": "assert", "t": tb.app("=", [v, c(rng.randint(-2, 3))]), "nm": "", "inner": []})
    fl = [g.formula(atoms, 1) for _ in range(2)] + rng.sample(bad, min(k, len(bad)))
    rng.shuffle(fl)
    for f in fl:
        if f in bad and rng.random() < 0.4:
            f = tb.app("or", [f, rng.choice(atoms)])
        cmds.append({"c": "assert", "t": f, "nm": "", "inner": []})
        if rng.random() < 0.4:
            cmds.append({"c": "check-sat"})
    cmds.append({"c": "check-sat"})
    fam = C.Family(g)
    fam.add_run("s", "c0", "outlogic", G.preamble(g, []) + cmds, timeout=10)
    tgt = {"QF_IDL": "QF_LIA", "QF_RDL": "QF_LRA", "QF_UFIDL": "QF_UFLIA", "QF_UFRDL": "QF_UFLRA"}.get(logic)
    if tgt:
        fam.add_run("s", "embed:" + tgt, "cfg", _with_logic(G.preamble(g, []), tgt) + cmds, timeout=10)
    return _result(fam, job)

# ------------------------------------------------------------------ malformed input (C18)
def mutate_text(text, rng):
    """token-level damage of a valid script"""
    import re as _re
    toks = _re.findall(r'\(|\)|"[^"]*"|\|[^|]*\||;[^\n]*|[^\s()]+', text)
    if len(toks) < 5:
        return text + ")"
    k = rng.choice(["del", "dup", "swap", "paren", "paren2", "junk", "trunc", "sortconf", "num"])
    i = rng.randrange(len(toks))
    if k == "del":
        del toks[i]
    elif k == "dup":
        toks.insert(i, toks[i])
    elif k == "swap" and i + 1 < len(toks):
        toks[i], toks[i + 1] = toks[i + 1], toks[i]
    elif k == "paren":
        toks.insert(i, rng.choice(["(", ")"]))
    elif k == "paren2":
        js = [j for j, t in enumerate(toks) if t in "()"]
        if js:
            del toks[rng.choice(js)]
    elif k == "junk":
        toks.insert(i, rng.choice(["#", "\\", "{", "|", '"', "0x", "007", "1.", ".5", "-", "--1", ":", "@@", "'", "`", "\x01", "\xff"]))
    elif k == "trunc":
        toks = toks[:i]
    elif k == "sortconf":
        toks = [("Int" if t == "Bool" and rng.random() < 0.5 else ("Bool" if t in ("Int", "Real") and rng.random() < 0.5 else t)) for t in toks]
    else:
        toks = [(rng.choice(["99999999999999999999999", "0", "1/0", "0.0", "00", "1e5"]) if _re.match(r"^\d+(\.\d+)?$", t) and rng.random() < 0.3 else t) for t in toks]
    out, line = [], []
    for t in toks:
        line.append(t)
        if t == ")" and rng.random() < 0.3 or t.startswith(";"):
            out.append(" ".join(line)); line = []
    out.append(" ".join(line))
    return "\n".join(out) + "\n"

UNSUPPORTED = ["(get-assertions)", "(get-info :all-statistics)", "(get-info :name)", "(get-option :produce-models)",
               "(declare-sort S 1)", "(define-sort MyInt () Int)", "(assert (forall ((q Int)) (> q 0)))",
               "(assert (exists ((q Bool)) q))", "(check-sat-assuming (p0))", "(reset)", "(reset-assertions)",
               "(declare-datatypes () ())", "(get-value (p0))", "(get-unsat-core)", "(get-proof)", "(get-interpolants a b)",
               "(get-model)", "(get-assignment)", "(push)", "(pop)", "(push -1)", "(pop -1)", "(push 99999999999999999999)",
               "(pop 99999999999999999999)", "(set-option :random-seed -1)", "(set-option :verbosity 99999999999)",
               "(set-option :incremental maybe)", "(set-info :status weird)", "(assert (/ 1 0))", "(assert (= (/ x 0) 1))",
               "(assert (= (div x 0) 1))", "(assert (= (mod x 0) 0))", "(assert (= (* x x) 1))", "(assert (= (/ 1 x) 1))",
               "(declare-fun p0 () Bool)", "(declare-fun p0 () Int)", "(declare-const nc Int)", "(define-fun p0 () Bool true)",
               "(define-fun df ((a Int) (a Int)) Int a)", "(assert (let ((a 1) (a 2)) (= a 1)))", "(assert (! p0 :named))",
               "(assert (! p0 :named p0))", "(assert (! p0 :pattern (p0)))", "(simplify)", "(echo)", "(echo 5)", "(exit 1)",
               "(set-logic)", "(set-logic QF_NIA)", "(set-logic QF_BV)", "(assert (select p0 1))", "(assert ((_ extract 1 0) p0))",
               "(assert (= #b01 #b10))", "(assert (= #xff #x00))", "(assert (as p0 Int))", "(assert (as @7 Bool))",
               "(declare-fun arr () (Array Int Int))", "(declare-fun arr2 () (Array Int))", "(assert (ite p0 1 false))",
               "(assert (distinct))", "(assert (distinct p0))", "(assert (=> p0))", "(assert (xor p0))", "(assert (- ))",
               "(assert (to_real 1))", "(assert (= (to_int 1.5) 1))", "(assert (is_int 1.0))", "(assert (abs 1))"]

def corner_commands(g, rng, names=()):
    """grammatical but unusual commands built from the script's own vocabulary: symbols with printf directives,
    attributes without or with non-symbol values, qualified identifiers in every position, query commands with too few
    or ill-typed arguments, numerals of every size, options changed in the middle of a script"""
    syms = [tb_name for tb_name in (["p0", "p1"] + (["x", "y"] if g.num else []) + (["u0", "f"] if g.uf else []) + (["a0"] if g.arr else []))]
    weird = ["|a%sb|", "x%n", "|%d%s%s|", "%s", "|p q|", "p%%", "|\\|", "@k", ".ite1", "|;c|", "|(|", "?v", "!", "|n%s%d|"]
    nums = ["0", "1", "5", "2147483647", "2147483648", "4294967296", "18446744073709551616", "99999999999999999999", "00", "1.5", "#b1", "#x1"]
    sorts = ["Bool", "Int", "Real", "U", "(Array Int Int)", "Undeclared", "(Array Bool)", "(_ BitVec 4)"]
    attrs = [":named", ":foo", ":pattern", ":named n1 :named n2", ":status"]
    avals = ["", "5", "zz9", "(p0)", "|w w|", '"str"', ":kw", "1.0", "#b0"]
    opts = [":global-declarations", ":produce-models", ":produce-unsat-cores", ":produce-interpolants", ":produce-proofs",
            ":produce-assignments", ":incremental", ":print-cores-full", ":minimal-unsat-cores", ":pure-lookahead", ":sat-picky",
            ":print-success", ":interpolation-bool-algorithm", ":verbosity", ":random-seed"]
    ovals = ["true", "false", "0", "1", "7", "-1", "99999999999", '"a%s"', "maybe", "(x)"]
    s, w, n = rng.choice, rng.choice(weird), rng.choice(nums)
    term = s(syms + weird + ["(not p0)", "(and p0 p1)", "(as p0 Bool)", "(as %s %s)" % (s(syms), s(sorts)), "(! p0 %s %s)" % (s(attrs), s(avals)),
                             "((as %s %s) %s %s)" % (s(syms), s(sorts), s(nums), s(syms)), "((_ %s %s) %s)" % (s(["extract", "to_fp", "divisible"]), n, s(syms)),
                             "(%s %s)" % (w, s(syms)), "(let ((%s p0)) %s)" % (w, w), "(select %s %s)" % (s(syms), n), "(- %s)" % n, "(/ %s %s)" % (n, s(nums))])
    nm = list(names) + ["zq1", w, n]
    T = [
        "(assert %s)" % term,
        "(assert (! %s %s %s))" % (term, s(attrs), s(avals)),
        "(get-value (%s))" % term, "(get-value (%s %s))" % (term, s(syms)), "(get-value ())",
        "(declare-fun %s () %s)" % (w, s(sorts)), "(declare-fun %s (%s) %s)" % (s(syms + weird), s(sorts), s(sorts)),
        "(declare-const %s %s)" % (w, s(sorts)), "(declare-sort %s %s)" % (s(["S1", w, "U", "Int"]), n),
        "(define-fun %s ((%s %s)) %s %s)" % (s(["d1", w] + syms), s(["a", w, "p0"]), s(sorts), s(sorts), term),
        "(push %s)" % n if n not in ("2147483647",) else "(push 3)", "(pop %s)" % n,
        "(get-interpolants %s)" % " ".join(rng.sample(nm, rng.randint(0, min(3, len(nm))))),
        "(get-interpolants (and %s) %s)" % (s(nm), s(nm)), "(get-interpolants (and) (and))", "(get-interpolants (not %s) %s)" % (s(nm), s(nm)),
        "(get-unsat-core)", "(get-model)", "(get-assignment)", "(get-proof)", "(check-sat)", "(check-sat %s)" % s(syms),
        "(set-option %s %s)" % (s(opts), s(ovals)), "(set-option %s)" % s(opts), "(get-option %s)" % s(opts + [":zz"]),
        "(set-info %s %s)" % (s([":status", ":source", ":smt-lib-version", w]), s(["sat", "|a b|", '"x%s"', n])), "(get-info %s)" % s([":name", ":version", ":status", ":zz"]),
        "(echo \"%s\")" % s(["%s%s%s", "%n", "a\\\"b", ""]), "(echo %s)" % w,
        "(set-logic %s)" % s(["QF_UF", "ALL", "QF_AUFLIRA", "QF_ABV", w, n]),
        "(exit %s)" % n, "(%s)" % w, "(%s %s)" % (w, term), "(assert)", "(assert %s %s)" % (term, term),
    ]
    return s(T)

def b_badinput(job):
    rng = random.Random(job["seed"])
    g = G.Gen(rng, job["logic"])
    mode = job.get("mode", rng.choice(["mutate", "inject", "inject", "order", "corner", "corner"]))
    binary = C.os.path.join(C.BUILD, job.get("flavour", "asan"), "opensmt")
    body = G.random_history(g, rng, n_assert=4, queries=[{"c": "get-model"}] if not g.arr else [], fdepth=1)
    opts = _opts("models") if not g.arr else []
    fam = C.Family(g)
    io = job.get("io", rng.choice(["file", "file", "pipe"]))
    if mode == "mutate":
        cmds = G.preamble(g, opts) + body
        text0 = G.render_script(cmds, g.tb, markers=False)
        text = mutate_text(text0, rng)
        wf = True
        try:
            from smtlib import read_all
            sx = read_all(text, "backslash")
            wf = all(isinstance(c, list) and c and isinstance(c[0], C.Atom) and c[0].kind == "sym" for c in sx)
        except Exception:
            wf = False
        has_check = "(check-sat" in text
        if wf:
            # still a sequence of well-formed s-expressions: run it as raw commands, one per s-expression
            from smtlib import sexpr_str
            raw = [{"c": "raw", "text": sexpr_str(c)} for c in sx]
            run = fam.add_run("s", "c0", "bad", raw, io=io, binary=binary, timeout=30, det=False)
        else:
            run = fam.add_run("s", "c0", "bad", [], io=io, binary=binary, timeout=30, text=text, wellformed=False, det=False)
            run["has_check"] = has_check
    elif mode == "inject":
        cmds = G.preamble(g, opts)
        n = rng.randint(1, 4)
        pos = sorted(rng.sample(range(len(body) + 1), min(n, len(body) + 1)))
        for i, c in enumerate(body + [None]):
            while pos and pos[0] == i:
                pos.pop(0)
                cmds.append({"c": "raw", "text": rng.choice(UNSUPPORTED)})
            if c is not None:
                cmds.append(c)
        fam.add_run("s", "c0", "bad", cmds, io=io, binary=binary, timeout=30, det=False)
    elif mode == "corner":
        feat = rng.choice(["models", "cores", "itp", "proofs", "assign", "models"])
        o2 = _opts(feat) + (_opts("models") if feat == "assign" else [])
        body2 = G.random_history(g, rng, n_assert=4, p_named=0.6 if feat in ("cores", "itp", "assign") else 0.0, fdepth=1,
                                 queries=[{"c": "get-model"}] if feat == "models" else
                                         ([{"c": "get-unsat-core"}] if feat == "cores" else ([{"c": "get-assignment"}] if feat == "assign" else [])))
        names = [c["nm"] for c in body2 if c["c"] == "assert" and c.get("nm")]
        cmds = G.preamble(g, o2)
        n = rng.randint(1, 5)
        pos = sorted(rng.choice(range(len(body2) + 1)) for _ in range(n))
        for i, c in enumerate(body2 + [None]):
            while pos and pos[0] == i:
                pos.pop(0)
                cmds.append({"c": "raw", "text": corner_commands(g, rng, names)})
            if c is not None:
                cmds.append(c)
        fam.add_run("s", "c0", "bad", cmds, io=io, binary=binary, timeout=30, det=False)
    else:
        # any command order: shuffle preamble and body, commands before set-logic
        cmds = G.preamble(g, opts) + body
        rng.shuffle(cmds)
        fam.add_run("s", "c0", "bad", cmds, io=io, binary=binary, timeout=30, det=False)
    return _result(fam, job, mon=False)

BUILDERS.update({"pipe": b_pipe, "rerun": b_rerun, "outlogic": b_outlogic, "badinput": b_badinput})

# ------------------------------------------------------------------ integer rounding (C27)
def b_rounding(job):
    """LIA / IDL scripts whose answers hinge on integer rounding: div/mod by constants of either sign, strict bounds,
    non-unit coefficients (gcd normalisation), negated difference constraints; all variables boxed so that the
    kernel's exhaustive grid decides every check-sat."""
    rng = random.Random(job["seed"])
    logic = job["logic"]
    g = G.Gen(rng, logic, box=True, nbool=1)
    tb = g.tb
    x, y, z = g.nums[:3]
    def c(v): return tb.num(v, INT)
    atoms = []
    vals = []
    for _ in range(job.get("n_atoms", 5)):
        k = rng.random()
        v, w = rng.sample([x, y, z], 2)
        if g.dl:
            d = tb.app("-", [v, w])
            a = tb.app(rng.choice(["<=", "<", ">=", ">", "="]), [d, c(rng.randint(-4, 4))])
            atoms.append(tb.app("not", [a]) if rng.random() < 0.5 else a)
        elif k < 0.35:
            n = rng.choice([2, 3, -2, -3, 4, 5, -1, 1])
            t = tb.app(rng.choice(["div", "mod"]), [v, c(n)])
            vals.append(t)
            atoms.append(tb.app(rng.choice(["=", "<=", ">=", "<", ">"]), [t, rng.choice([w, c(rng.randint(-3, 3))])]))
        elif k < 0.6:
            a = rng.choice([2, 3, -2, 4, -3])
            atoms.append(tb.app(rng.choice(["<", ">", "<=", ">="]), [tb.app("*", [c(a), v]), c(rng.randint(-7, 7))]))
        elif k < 0.8:
            a, b = rng.choice([2, 3, 4, 6]), rng.choice([2, 4, 6, -2, 3])
            atoms.append(tb.app(rng.choice(["=", "<=", "<"]), [tb.app("+", [tb.app("*", [c(a), v]), tb.app("*", [c(b), w])]), c(rng.randint(-5, 5))]))
        else:
            atoms.append(tb.app(rng.choice(["<", ">"]), [v, w]))
    if not g.dl and rng.random() < 0.35:
        # the same dividend divided by n and by -n: (div t (- n)) = (- (div t n)), (mod t (- n)) = (mod t n)
        v = rng.choice([x, y, z]); n = rng.choice([2, 3, 4, 5])
        t = rng.choice([v, tb.app("+", [v, c(rng.randint(-2, 2))]), tb.app("-", [v, rng.choice([w_ for w_ in (x, y, z) if w_ != v])])])
        o1, o2 = rng.choice([("div", "div"), ("div", "mod"), ("mod", "div"), ("div", "div")])
        d1, d2 = tb.app(o1, [t, c(n)]), tb.app(o2, [t, c(-n)])
        vals += [d1, d2]
        atoms.append(tb.app(rng.choice(["=", "<=", ">="]), [d1, rng.choice([c(rng.randint(-3, 3)), rng.choice([x, y, z])])]))
        atoms.append(tb.app(rng.choice(["=", "<", ">", "distinct"]), [d2, rng.choice([c(rng.randint(-3, 3)), tb.app("-", [d1]) if o1 == o2 == "div" else d1])]))
    if not g.dl:
        # constant folding of div / mod
        for _ in range(3):
            t = tb.app(rng.choice(["div", "mod"]), [c(rng.randint(-9, 9)), c(rng.choice([1, 2, 3, 4, 7, -1, -2, -3, -5]))])
            vals.append(t)
            atoms.append(tb.app("=", [rng.choice([x, y, z]), t]) if rng.random() < 0.4 else tb.app(rng.choice(["<=", ">="]), [t, c(rng.randint(-3, 3))]))
    cmds = [{"c": "assert", "t": b, "nm": "", "inner": []} for b in g.box_asserts()]
    q = [{"c": "get-model"}] + ([{"c": "get-value", "ts": vals[:5]}] if vals else [])
    for i in range(job.get("n_assert", 4)):
        f = rng.choice(atoms) if rng.random() < 0.6 else g.formula(atoms, 1)
        if rng.random() < 0.25:
            cmds.append({"c": "push", "n": 1})
        cmds.append({"c": "assert", "t": f, "nm": "", "inner": []})
        if rng.random() < 0.5:
            cmds.append({"c": "check-sat"}); cmds += [dict(e) for e in q]
    cmds.append({"c": "check-sat"}); cmds += [dict(e) for e in q]
    fam = C.Family(g)
    fam.add_run("s", "c0", "main", G.preamble(g, _opts("models")) + cmds)
    return _result(fam, job)

BUILDERS["rounding"] = b_rounding

# ------------------------------------------------------------------ printed SMT-LIB reads back (C17)
ODD_NAMES = ["a b", "x;y", "p(q", "r)s", "u\"v", "0abc", "let", "assert", "x!0", "y!1", "a@", "a.b", "A~", "1", "<=x", "true!", "Bool2",
             "par", "as", "exists", "ite!", "and$"]
# every character that is not allowed in a simple symbol, at the first, an inner and the last position, and alone
for _ch in " ;()\"#:',`[]{}":
    ODD_NAMES += [_ch + "k", "k" + _ch + "m", "km" + _ch, _ch]
ODD_NAMES = [n for i, n in enumerate(ODD_NAMES) if n not in ODD_NAMES[:i]]
def b_printing(job):
    """models, values, cores, interpolants over symbols that need quoting or clash with reserved words / generated
    parameter names; then the printed model is read back by a fresh solver together with the assertions"""
    rng = random.Random(job["seed"])
    g = G.Gen(rng, job["logic"], nbool=1)
    tb = g.tb
    names = rng.sample(ODD_NAMES, 4)
    extra_b = []
    for nm in names[:2]:
        g._declare(nm, (), BOOL); v = tb.var(nm, BOOL); g.bools.append(v); extra_b.append(v)
    if g.num:
        g._declare(names[2], (), g.num); g.nums.append(tb.var(names[2], g.num))
    if g.uf:
        g._declare(names[3], ("U",), "U")
        g.funs[names[3]] = (("U",), "U")
    mode = job.get("mode", rng.choice(["models", "models", "cores", "itp"]))
    if g.arr: mode = "cores"
    if mode == "itp" and (g.dl or g.arr): mode = "cores"
    if mode == "models":
        ts = list(extra_b)
        if g.num: ts.append(g.nums[-1]); ts.append(g.num_term())
        if g.uf: ts.append(tb.uf(names[3], [g.us[0]], "U"))
        q = [{"c": "get-model"}, {"c": "get-value", "ts": ts}]
        body = G.random_history(g, rng, n_assert=4, queries=q, fdepth=1, max_depth=1)
        opts = _opts("models")
    elif mode == "cores":
        body = unsat_biased_body(g, rng, queries=[{"c": "get-unsat-core"}], histories=False, n_atoms=4)
        opts = _opts("cores") + [(":print-cores-full", "true")]
    else:
        body = unsat_biased_body(g, rng, p_named=1.0, nested=False, histories=False, n_atoms=4)
        body = add_itp_queries(body, rng)
        opts = _opts("itp")
    # make sure the odd symbols occur in assertions
    body = [{"c": "assert", "t": tb.app("or", [extra_b[0], tb.app("not", [extra_b[1]])]), "nm": "", "inner": []}] + body
    cmds = G.preamble(g, opts) + body
    fam = C.Family(g)
    run = fam.add_run("s", "c0", "main", cmds)
    # read-back: declarations of sorts, the printed model as define-funs, the assertions, check-sat
    if mode == "models":
        segs, done, _ = C.split_output(run["res"]["out"], len(cmds))
        mir = C.Mirror()
        k = 0
        for i, cmd in enumerate(cmds):
            if i >= done: break
            r = "error" if "(error" in segs[i] else (segs[i].split("\n")[0].strip() if cmd["c"] == "check-sat" else "ok")
            if cmd["c"] == "get-model" and r != "error" and mir.mode == "sat" and k < 2:
                k += 1
                from smtlib import read_all, parse_model, Signature, sexpr_str, SmtError
                try:
                    sx = read_all(segs[i])
                    sig = Signature(); sig.sorts = set(g.sig.sorts); sig.funs = dict(g.sig.funs)
                    m = parse_model(sx[0], tb, sig)
                    rb = [{"c": "set-logic", "logic": G.logic_name(g.logic)}] + [dict(d) for d in g.decls if d["c"] == "declare-sort"]
                    ok = True
                    # abstract values of uninterpreted sorts are model-only syntax: give them to the reading solver as
                    # pairwise distinct constants, so that (as @k U) reads back
                    uvs = {}
                    for d in m:
                        for j in tb.subterms(d["b"]):
                            rj = tb.rec(j)
                            if rj["k"] == "u":
                                uvs.setdefault(rj["s"], set()).add(rj["nm"])
                    for srt, nms in sorted(uvs.items()):
                        for nm in sorted(nms):
                            rb.append({"c": "raw", "text": "(declare-fun %s () %s)" % (nm, srt), "must": "accept"})
                        if len(nms) > 1:
                            rb.append({"c": "raw", "text": "(assert (distinct %s))" % " ".join("(as %s %s)" % (nm, srt) for nm in sorted(nms)), "must": "accept"})
                    for entry, d in zip(sx[0], m):
                        # the text exactly as the solver printed it; the parsed definition for the specification
                        params = [(p, tb.sort(tb.var(p, "?")) if False else None) for p in d["p"]]
                        psorts = [sexpr_str(pp[1]) for pp in entry[2]]
                        rb.append({"c": "define", "nm": d["nm"], "params": list(zip(d["p"], psorts)), "ret": sexpr_str(entry[3]), "b": d["b"],
                                   "text": sexpr_str(entry), "must": "accept"})
                    for dn, (dparams, db, _) in mir.defs.items():
                        rb.append({"c": "define", "nm": dn, "params": dparams, "ret": tb.sort(db), "b": db, "must": "accept"})
                    for t, _ in mir.entries():
                        rb.append({"c": "assert", "t": t, "nm": "", "inner": [], "must": "accept"})
                    rb.append({"c": "check-sat", "empty_hint": True})
                    fam.add_run("rb%d" % k, "c0", "readback", rb, text=render_with_text(rb, tb))
                except SmtError:
                    pass
            mir.step(cmd, r)
    return _result(fam, job)

def render_with_text(cmds, tb):
    out = []
    for k, cmd in enumerate(cmds, 1):
        out.append(cmd["text"] if cmd.get("text") and cmd["c"] != "raw" else G.render_cmd(cmd, tb))
        out.append('(echo "@@%d")' % k)
    return "\n".join(out) + "\n"

BUILDERS["printing"] = b_printing

# ------------------------------------------------------------------ proofs (C10)
def b_proofs(job):
    rng = random.Random(job["seed"])
    g = G.Gen(rng, job["logic"], box=True)
    q = [{"c": "get-proof"}]
    if job.get("mode", "biased") == "biased":
        body = unsat_biased_body(g, rng, p_named=0.0, nested=False, queries=q, histories=job.get("histories", True), n_atoms=job.get("n_atoms", 4))
    else:
        body = G.random_history(g, rng, n_assert=6, queries=q, min_checks=2)
    cmds = G.preamble(g, _opts("proofs")) + body
    fam = C.Family(g)
    run = fam.add_run("s", "proofs", "main", cmds)
    r = _result(fam, job)
    r["nontrivial"] = run.get("proofs", 0) > 0
    return r
BUILDERS["proofs"] = b_proofs
