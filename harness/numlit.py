"""Numeric literals through the executable (pipe mode, one command per literal) and through
ArithLogic::mkConst (terms_driver) -> events for spec/trace/NumLit_Trace.tla (C16)."""
import os, json, random, subprocess
from fractions import Fraction
import core as C
import builders as B
from smtlib import read_all, SmtError, Atom, is_sym
from ratdrv import big

TDRIVER = os.path.join(C.BUILD, "drivers", "rel", "terms_driver")

def rand_digits(rng, n, lead_zero=False):
    s = "".join(rng.choice("0123456789") for _ in range(n))
    if not lead_zero and len(s) > 1:
        s = rng.choice("123456789") + s[1:]
    return s

def literals(rng, n, big=True):
    """a mix of well-formed and ill-formed literal strings"""
    out = []
    fixed = ["0", "1", "7", "10", "007", "00", "0.0", "0.5", "1.0", "1.50", "12.000", "0.001", "00.5", "1.", ".5", "1..2", "1.2.3",
             "3/4", "6/4", "1/0", "0/3", "10/010", "1/", "/2", "-1", "--1", "-0", "1e5", "0x10", "2147483647", "2147483648", "4294967296",
             "9007199254740993", "9223372036854775808", "18446744073709551617", "0.000000000000000000001", "123456789012345678901234567890",
             "3.14159265358979323846", "1/3", "100/7", "010", "08", "0.10", "99999999999999999999.99999999999999999999"]
    out += rng.sample(fixed, min(len(fixed), n // 2))
    while len(out) < n:
        k = rng.random()
        if k < 0.3:
            out.append(rand_digits(rng, rng.randint(1, 28 if big else 7)))
        elif k < 0.6:
            out.append(rand_digits(rng, rng.randint(1, 12)) + "." + rand_digits(rng, rng.randint(1, 14), lead_zero=True))
        elif k < 0.75:
            out.append(rand_digits(rng, rng.randint(1, 12)) + "/" + rand_digits(rng, rng.randint(1, 12)))
        elif k < 0.85:
            out.append(rand_digits(rng, rng.randint(2, 6), lead_zero=True))
        else:
            s = list(rand_digits(rng, rng.randint(2, 7), lead_zero=True))
            s.insert(rng.randrange(len(s) + 1), rng.choice("./"))
            if rng.random() < 0.4:
                s.insert(rng.randrange(len(s) + 1), rng.choice("./"))
            out.append("".join(s))
    return out

def value_of_sexpr(x):
    """exact value of a printed numeric constant: 5, (- 5), (/ 1 3), (- (/ 1 3)), 2.5"""
    if isinstance(x, Atom):
        if x.kind == "num":
            return Fraction(int(x.val))
        if x.kind == "dec":
            return Fraction(x.val)
        raise ValueError("not a number: %r" % x)
    if len(x) == 2 and is_sym(x[0], "-"):
        return -value_of_sexpr(x[1])
    if len(x) == 3 and is_sym(x[0], "/"):
        return value_of_sexpr(x[1]) / value_of_sexpr(x[2])
    raise ValueError("not a numeric constant")

def ev(text, kind, accepted, val, mustaccept=True):
    e = {"e": "lit", "text": text, "chars": list(text), "kind": kind, "accepted": bool(accepted), "hasval": val is not None,
         "val": {"n": big(val.numerator), "d": big(val.denominator)} if val is not None else {"n": big(0), "d": big(1)},
         "mustaccept": bool(mustaccept), "strict": kind.startswith("script"), "unsat": False}
    return e

def b_numlit(job):
    rng = random.Random(job["seed"])
    lits = literals(rng, job.get("n", 40))
    events = []
    stats = {"script_accepted": 0, "script_rejected": 0, "api_accepted": 0, "api_rejected": 0}
    # --- through a script, pipe mode: every command is parsed on its own
    sort = job.get("sort", rng.choice(["Real", "Int"]))
    logic = "QF_LRA" if sort == "Real" else "QF_LIA"
    lines = ["(set-option :produce-models true)", "(set-logic %s)" % logic, "(declare-fun v () %s)" % sort]
    k0 = len(lines)
    for s_ in lits:
        lines += ["(push 1)", "(assert (= v %s))" % s_, "(check-sat)", "(get-value (v))", "(pop 1)"]
    text = "".join("%s\n(echo \"@@%d\")\n" % (ln, j + 1) for j, ln in enumerate(lines))
    res = C.run_opensmt(text, io="pipe", timeout=60)
    segs, done, tail = C.split_output(res["out"], len(lines))
    for i, s_ in enumerate(lits):
        base = k0 + 5 * i
        if base + 4 >= done:
            break          # the process ended (the lexer exits on some characters): no observation
        seg = segs[base + 1]
        acc = "(error" not in seg and "rror" not in seg
        val = None
        if acc:
            if segs[base + 2].strip().startswith("sat"):
                try:
                    sx = read_all(segs[base + 3])
                    val = value_of_sexpr(sx[0][0][1])
                except Exception:
                    val = None
            else:
                val = "unsat"
        must = not (sort == "Int" and ("." in s_ or "/" in s_))
        e = ev(s_, "script:" + sort, acc, val if isinstance(val, Fraction) else None, must)
        e["unsat"] = (val == "unsat")
        events.append(e)
        stats["script_accepted" if acc else "script_rejected"] += 1
    # --- through the API: ArithLogic::mkConst(sort, string)
    dl = []
    for i, s in enumerate(lits):
        if " " in s or not s:
            continue
        dl.append("num %d %s %s" % (i + 1, sort, s))
    p = subprocess.run([TDRIVER], input=("\n".join(dl) + "\n").encode(), stdout=subprocess.PIPE, stderr=subprocess.PIPE, timeout=60)
    for ln in p.stdout.decode().split("\n"):
        if not ln.strip():
            continue
        try:
            o = json.loads(ln)
        except Exception:
            continue
        s = lits[o["i"] - 1]
        if "err" in o:
            events.append(ev(s, "api:" + sort, False, None, not (sort == "Int" and ("." in s or "/" in s))))
            stats["api_rejected"] += 1
        else:
            try:
                v = value_of_sexpr(read_all(o["t"]["t"])[0])
            except Exception:
                v = None
            events.append(ev(s, "api:" + sort, True, v))
            stats["api_accepted"] += 1
    if p.returncode != 0:
        stats["driver_rc"] = p.returncode
    sample = {"builder": "numlit", "seed": job["seed"], "sort": sort, "literals": lits[:12], "stats": stats}
    return {"events": events, "runs": 2, "sample": sample, "nontrivial": stats["script_accepted"] > 3,
            "texts": [{"sid": "n", "cfg": sort, "kind": "pipe", "io": "pipe", "text": text, "out": res["out"][:3000], "status": res["status"], "sig": res["sig"]}],
            "stats": dict(stats, answers=[])}

B.BUILDERS["numlit"] = b_numlit
