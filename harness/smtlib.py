"""Strict SMT-LIB 2 reader, sort checker and term table for the verification harness.

Terms live in a hash-consed table (class Table); a term is its 1-based index, as in
spec/kernel/Terms.tla.  Every record has the same fields so that TLC can read the
table with ndJsonDeserialize:
  k  "b" | "n" | "u" | "v" | "a" | "let"      op, nm, s (sort), a (args), n, d, bn
"""
from fractions import Fraction
import re

class SmtError(Exception):
    pass

class LexError(SmtError):
    pass

class SortError(SmtError):
    pass

# ---------------------------------------------------------------- lexer / reader
SYMCH = set("abcdefghijklmnopqrstuvwxyzABCDEFGHIJKLMNOPQRSTUVWXYZ0123456789~!@$%^&*_-+=<>.?/")

class Atom:
    __slots__ = ("kind", "val")
    def __init__(self, kind, val):
        self.kind = kind   # sym qsym kw num dec str hex bin
        self.val = val
    def __repr__(self):
        return "%s:%s" % (self.kind, self.val)
    def __eq__(self, o):
        return isinstance(o, Atom) and o.kind == self.kind and o.val == self.val
    def __hash__(self):
        return hash((self.kind, self.val))

def tokenize(text, string_escape="smt26"):
    """Yield tokens '(' ')' or Atom.  string_escape: 'smt26' ("" inside strings) or
    'backslash' (the \\" escape that OpenSMT's lexer implements)."""
    i, n = 0, len(text)
    while i < n:
        c = text[i]
        if c in " \t\r\n":
            i += 1
        elif c == ";":
            while i < n and text[i] != "\n":
                i += 1
        elif c == "(" or c == ")":
            yield c
            i += 1
        elif c == '"':
            j = i + 1
            buf = []
            while True:
                if j >= n:
                    raise LexError("unterminated string")
                if string_escape == "backslash" and text[j] == "\\" and j + 1 < n:
                    buf.append(text[j + 1]); j += 2; continue
                if text[j] == '"':
                    if string_escape == "smt26" and j + 1 < n and text[j + 1] == '"':
                        buf.append('"'); j += 2; continue
                    break
                buf.append(text[j]); j += 1
            yield Atom("str", "".join(buf))
            i = j + 1
        elif c == "|":
            j = text.find("|", i + 1)
            if j < 0:
                raise LexError("unterminated quoted symbol")
            if "\\" in text[i + 1:j]:
                raise LexError("backslash in quoted symbol")
            yield Atom("qsym", text[i + 1:j])
            i = j + 1
        elif c == ":":
            j = i + 1
            while j < n and text[j] in SYMCH:
                j += 1
            if j == i + 1:
                raise LexError("empty keyword")
            yield Atom("kw", text[i:j])
            i = j
        elif c == "#":
            j = i + 2
            while j < n and text[j] in SYMCH:
                j += 1
            yield Atom("hex" if text[i + 1:i + 2] == "x" else "bin", text[i:j])
            i = j
        elif c.isdigit():
            j = i
            while j < n and text[j].isdigit():
                j += 1
            if j < n and text[j] == "." and j + 1 < n and text[j + 1].isdigit():
                k = j + 1
                while k < n and text[k].isdigit():
                    k += 1
                tok = text[i:k]
                if k < n and text[k] in SYMCH:
                    raise LexError("bad token after decimal " + tok)
                yield Atom("dec", tok)
                i = k
            else:
                tok = text[i:j]
                if j < n and text[j] in SYMCH:
                    raise LexError("bad token after numeral " + tok)
                yield Atom("num", tok)
                i = j
        elif c in SYMCH:
            j = i
            while j < n and text[j] in SYMCH:
                j += 1
            yield Atom("sym", text[i:j])
            i = j
        else:
            raise LexError("illegal character %r" % c)

def read_all(text, string_escape="smt26"):
    """Parse text into a list of s-expressions (nested lists of Atom)."""
    stack = [[]]
    for t in tokenize(text, string_escape):
        if t == "(":
            stack.append([])
        elif t == ")":
            if len(stack) == 1:
                raise LexError("unbalanced )")
            x = stack.pop()
            stack[-1].append(x)
        else:
            stack[-1].append(t)
    if len(stack) != 1:
        raise LexError("unbalanced (")
    return stack[0]

def is_sym(x, name=None):
    return isinstance(x, Atom) and x.kind in ("sym", "qsym") and (name is None or x.val == name)

def sexpr_str(x):
    if isinstance(x, list):
        return "(" + " ".join(sexpr_str(y) for y in x) + ")"
    if x.kind == "qsym":
        return "|" + x.val + "|"
    if x.kind == "str":
        return '"' + x.val.replace('"', '""') + '"'
    return x.val

# ---------------------------------------------------------------- term table
BOOL, INT, REAL = "Bool", "Int", "Real"

def arr_sort(i, e):
    return "(Array %s %s)" % (i, e)

def parse_arr_sort(s):
    """-> (index, element) or None"""
    if not s.startswith("(Array "):
        return None
    body = s[len("(Array "):-1]
    depth = 0
    for i, c in enumerate(body):
        if c == "(":
            depth += 1
        elif c == ")":
            depth -= 1
        elif c == " " and depth == 0:
            return body[:i], body[i + 1:]
    return None

SIMPLE_SYM = re.compile(r"^[A-Za-z~!@$%^&*_\-+=<>.?/][A-Za-z0-9~!@$%^&*_\-+=<>.?/]*$")
RESERVED = {"let", "forall", "exists", "par", "as", "_", "!", "match", "NUMERAL", "DECIMAL", "STRING",
            "assert", "check-sat", "declare-fun", "declare-const", "declare-sort", "define-fun", "define-sort",
            "exit", "get-model", "get-value", "pop", "push", "set-logic", "set-option", "set-info",
            "get-info", "get-option", "get-proof", "get-unsat-core", "get-assignment", "echo",
            "true", "false", "not", "and", "or", "xor", "ite", "distinct", "BINARY", "HEXADECIMAL"}

def quote_sym(name):
    if SIMPLE_SYM.match(name) and name not in ("let", "forall", "exists", "par", "as", "_", "!", "match"):
        return name
    return "|" + name + "|"

class Table:
    """Hash-consed term DAG.  ids are 1-based."""
    def __init__(self):
        self.recs = []
        self.index = {}

    def _intern(self, k, op="", nm="", s="", a=(), n=0, d=1, bn=()):
        key = (k, op, nm, s, tuple(a), n, d, tuple(bn))
        i = self.index.get(key)
        if i is None:
            self.recs.append({"k": k, "op": op, "nm": nm, "s": s, "a": list(a), "n": n, "d": d, "bn": list(bn)})
            i = len(self.recs)
            self.index[key] = i
        return i

    def rec(self, i):
        return self.recs[i - 1]

    def sort(self, i):
        return self.recs[i - 1]["s"]

    # constants
    def true(self):  return self._intern("b", s=BOOL, n=1)
    def false(self): return self._intern("b", s=BOOL, n=0)
    def boolc(self, b): return self.true() if b else self.false()
    def num(self, q, sort=None):
        q = Fraction(q)
        if sort is None:
            sort = INT if q.denominator == 1 else REAL
        return self._intern("n", s=sort, n=q.numerator, d=q.denominator)
    def uval(self, name, sort): return self._intern("u", nm=name, s=sort)
    def var(self, name, sort):  return self._intern("v", nm=name, s=sort)

    def value_of(self, i):
        r = self.rec(i)
        if r["k"] == "n":
            return Fraction(r["n"], r["d"])
        return None

    def let(self, names, vals, body):
        return self._intern("let", s=self.sort(body), a=list(vals) + [body], bn=names)

    def uf(self, name, args, ret):
        return self._intern("a", op="uf", nm=name, s=ret, a=args)

    def _numsort(self, args, op):
        ss = set(self.sort(a) for a in args)
        ss2 = set()
        for a in args:
            s = self.sort(a)
            # an integer numeral may be used where a Real is expected
            if s == INT and self.rec(a)["k"] == "n" and (REAL in ss):
                s = REAL
            ss2.add(s)
        if ss2 == {INT}:
            return INT
        if ss2 == {REAL}:
            return REAL
        raise SortError("%s applied to sorts %s" % (op, sorted(ss)))

    def app(self, op, args):
        args = list(args)
        S = [self.sort(a) for a in args]
        if op in ("and", "or", "xor", "=>"):
            if len(args) < (1 if op in ("and", "or") else 2) or any(s != BOOL for s in S):
                raise SortError("%s over %s" % (op, S))
            return self._intern("a", op=op, s=BOOL, a=args)
        if op == "not":
            if S != [BOOL]:
                raise SortError("not over %s" % S)
            return self._intern("a", op=op, s=BOOL, a=args)
        if op in ("=", "distinct"):
            if len(args) < 2:
                raise SortError(op + " needs two arguments")
            if len(set(S)) != 1:
                if set(S) <= {INT, REAL}:
                    self._numsort(args, op)
                else:
                    raise SortError("%s over %s" % (op, S))
            return self._intern("a", op=op, s=BOOL, a=args)
        if op == "ite":
            if len(args) != 3 or S[0] != BOOL:
                raise SortError("ite over %s" % S)
            if S[1] != S[2]:
                if {S[1], S[2]} <= {INT, REAL}:
                    return self._intern("a", op=op, s=self._numsort(args[1:], op), a=args)
                raise SortError("ite branches %s" % S)
            return self._intern("a", op=op, s=S[1], a=args)
        if op in ("+", "*"):
            if len(args) < 1:
                raise SortError(op + " without arguments")
            return self._intern("a", op=op, s=self._numsort(args, op), a=args)
        if op == "-":
            if len(args) < 1:
                raise SortError("- without arguments")
            return self._intern("a", op=op, s=self._numsort(args, op), a=args)
        if op == "/":
            if len(args) != 2:
                raise SortError("/ arity")
            self._numsort(args, op)
            return self._intern("a", op=op, s=REAL, a=args)
        if op in ("div", "mod"):
            if len(args) != 2 or S != [INT, INT]:
                raise SortError("%s over %s" % (op, S))
            return self._intern("a", op=op, s=INT, a=args)
        if op == "abs":
            if S != [INT]:
                raise SortError("abs over %s" % S)
            return self._intern("a", op=op, s=INT, a=args)
        if op in ("<=", "<", ">=", ">"):
            if len(args) < 2:
                raise SortError(op + " arity")
            self._numsort(args, op)
            return self._intern("a", op=op, s=BOOL, a=args)
        if op == "to_real":
            if S != [INT]:
                raise SortError("to_real over %s" % S)
            return self._intern("a", op=op, s=REAL, a=args)
        if op == "to_int":
            if S != [REAL]:
                raise SortError("to_int over %s" % S)
            return self._intern("a", op=op, s=INT, a=args)
        if op == "is_int":
            if S != [REAL]:
                raise SortError("is_int over %s" % S)
            return self._intern("a", op=op, s=BOOL, a=args)
        if op == "select":
            ie = parse_arr_sort(S[0]) if len(args) == 2 else None
            if ie is None or ie[0] != S[1]:
                raise SortError("select over %s" % S)
            return self._intern("a", op=op, s=ie[1], a=args)
        if op == "store":
            ie = parse_arr_sort(S[0]) if len(args) == 3 else None
            if ie is None or ie[0] != S[1] or ie[1] != S[2]:
                raise SortError("store over %s" % S)
            return self._intern("a", op=op, s=S[0], a=args)
        raise SortError("unknown operator " + op)

    def constarr(self, sort, dflt):
        return self._intern("a", op="constarr", s=sort, a=[dflt])

    # ---- printing
    def show(self, i, names=None):
        """SMT-LIB text of term i.  names: {id: name} prints (! t :named name) at that node."""
        r = self.rec(i)
        k = r["k"]
        if k == "b":
            s = "true" if r["n"] == 1 else "false"
        elif k == "n":
            s = show_num(Fraction(r["n"], r["d"]), r["s"])
        elif k == "u":
            s = "(as %s %s)" % (r["nm"], r["s"])
        elif k == "v":
            s = quote_sym(r["nm"])
        elif k == "let":
            kk = len(r["bn"])
            s = "(let (%s) %s)" % (" ".join("(%s %s)" % (quote_sym(b), self.show(v, names)) for b, v in zip(r["bn"], r["a"][:kk])),
                                   self.show(r["a"][kk], names))
        else:
            op = quote_sym(r["nm"]) if r["op"] == "uf" else r["op"]
            if r["op"] == "constarr":
                s = "((as const %s) %s)" % (r["s"], self.show(r["a"][0], names))
            else:
                s = "(%s %s)" % (op, " ".join(self.show(a, names) for a in r["a"]))
        if names and i in names:
            # annotate the first occurrence only (a name may be introduced once)
            s = "(! %s :named %s)" % (s, quote_sym(names.pop(i)))
        return s

    def subterms(self, i, acc=None):
        if acc is None:
            acc = set()
        if i in acc:
            return acc
        acc.add(i)
        for a in self.rec(i)["a"]:
            self.subterms(a, acc)
        return acc

    def free_syms(self, i, bound=frozenset()):
        r = self.rec(i)
        if r["k"] == "v":
            return set() if r["nm"] in bound else {r["nm"]}
        if r["k"] == "let":
            k = len(r["bn"])
            out = set()
            for a in r["a"][:k]:
                out |= self.free_syms(a, bound)
            return out | self.free_syms(r["a"][k], bound | set(r["bn"]))
        out = set()
        if r["k"] == "a":
            if r["op"] == "uf":
                out.add(r["nm"])
            for a in r["a"]:
                out |= self.free_syms(a, bound)
        return out

    def max_abs(self, ids):
        """largest |numerator| or denominator of a constant below the given terms"""
        m = 0
        seen = set()
        for i in ids:
            for j in self.subterms(i, seen):
                r = self.rec(j)
                if r["k"] == "n":
                    m = max(m, abs(r["n"]), r["d"])
        return m

def show_num(q, sort=REAL):
    q = Fraction(q)
    if q.denominator == 1:
        n = q.numerator
        if sort == REAL:
            return "%d.0" % n if n >= 0 else "(- %d.0)" % -n
        return "%d" % n if n >= 0 else "(- %d)" % -n
    a = abs(q.numerator)
    body = "(/ %d %d)" % (a, q.denominator) if sort != REAL else "(/ %d.0 %d.0)" % (a, q.denominator)
    return body if q > 0 else "(- %s)" % body

# ---------------------------------------------------------------- term reader
BUILTINS = {"and", "or", "xor", "=>", "not", "=", "distinct", "ite", "+", "-", "*", "/", "div", "mod", "abs",
            "<=", "<", ">=", ">", "to_real", "to_int", "is_int", "select", "store"}

class Signature:
    """declared symbols: name -> (argsorts tuple, retsort); sorts: set of user sort names"""
    def __init__(self):
        self.funs = {}
        self.sorts = set()
        self.defs = {}     # define-fun: name -> (params [(name, sort)], body id, retsort)
    def copy(self):
        s = Signature()
        s.funs = dict(self.funs); s.sorts = set(self.sorts); s.defs = dict(self.defs)
        return s

def parse_sort(x, sig):
    if is_sym(x):
        if x.val in (BOOL, INT, REAL) or x.val in sig.sorts:
            return x.val
        raise SortError("unknown sort " + x.val)
    if isinstance(x, list) and len(x) == 3 and is_sym(x[0], "Array"):
        return arr_sort(parse_sort(x[1], sig), parse_sort(x[2], sig))
    raise SortError("bad sort " + sexpr_str(x))

def parse_term(x, tb, sig, env=None, want=None, named=None, inline_defs=False):
    """s-expression -> term id.  env: bound variable name -> sort (let variables map to
    ('let', id) when substituted).  named: list collecting (name, id) of :named annotations.
    Raises SortError for ill-sorted or unknown symbols."""
    env = env or {}
    if isinstance(x, Atom):
        if x.kind == "num":
            q = Fraction(int(x.val))
            return tb.num(q, REAL if want == REAL else INT)
        if x.kind == "dec":
            return tb.num(Fraction(x.val), REAL)
        if x.kind in ("sym", "qsym"):
            nm = x.val
            if nm in env:
                e = env[nm]
                if isinstance(e, tuple):
                    return e[1]
                return tb.var(nm, e)
            if x.kind == "sym" and nm == "true":
                return tb.true()
            if x.kind == "sym" and nm == "false":
                return tb.false()
            if nm in sig.defs and not sig.defs[nm][0]:
                if inline_defs:
                    return sig.defs[nm][1]
                return tb.var(nm, sig.defs[nm][2])
            if nm in sig.funs and not sig.funs[nm][0]:
                return tb.var(nm, sig.funs[nm][1])
            raise SortError("unknown symbol " + nm)
        raise SortError("unsupported literal " + repr(x))
    if not x:
        raise SortError("empty application")
    h = x[0]
    if is_sym(h, "!") and x[0].kind == "sym":
        t = parse_term(x[1], tb, sig, env, want, named, inline_defs)
        i = 2
        while i < len(x):
            if isinstance(x[i], Atom) and x[i].kind == "kw":
                if x[i].val == ":named" and i + 1 < len(x) and is_sym(x[i + 1]):
                    if named is not None:
                        named.append((x[i + 1].val, t))
                i += 2
            else:
                raise SortError("bad attribute")
        return t
    if is_sym(h, "let") and h.kind == "sym":
        if len(x) != 3 or not isinstance(x[1], list):
            raise SortError("bad let")
        names, vals = [], []
        for b in x[1]:
            if not (isinstance(b, list) and len(b) == 2 and is_sym(b[0])):
                raise SortError("bad let binding")
            names.append(b[0].val)
            vals.append(parse_term(b[1], tb, sig, env, None, named, inline_defs))
        if len(set(names)) != len(names):
            raise SortError("duplicate let variable")
        env2 = dict(env)
        for nm, v in zip(names, vals):
            env2[nm] = tb.sort(v)
        body = parse_term(x[2], tb, sig, env2, want, named, inline_defs)
        return tb.let(names, vals, body)
    if isinstance(h, list):
        # ((as const (Array I E)) v)
        if len(h) == 3 and is_sym(h[0], "as") and is_sym(h[1], "const") and len(x) == 2:
            s = parse_sort(h[2], sig)
            ie = parse_arr_sort(s)
            if ie is None:
                raise SortError("as const with non-array sort")
            v = parse_term(x[1], tb, sig, env, ie[1], named, inline_defs)
            if tb.sort(v) != ie[1] and not (tb.sort(v) == INT and ie[1] == REAL):
                raise SortError("const array element sort")
            return tb.constarr(s, v)
        raise SortError("bad head " + sexpr_str(h))
    if is_sym(h, "as") and h.kind == "sym":
        if len(x) == 3 and is_sym(x[1]):
            s = parse_sort(x[2], sig)
            nm = x[1].val
            if nm in env and not isinstance(env[nm], tuple):
                if env[nm] != s:
                    raise SortError("qualified variable %s has sort %s, not %s" % (nm, env[nm], s))
                return tb.var(nm, s)
            if nm in sig.funs and not sig.funs[nm][0] and sig.funs[nm][1] == s:
                return tb.var(nm, s)
            if nm.startswith("@") or "!val!" in nm:
                if s in (BOOL, INT, REAL) or s.startswith("(Array"):
                    raise SortError("abstract value %s of interpreted sort %s" % (nm, s))
                return tb.uval(nm, s)
            raise SortError("unknown qualified identifier " + nm)
        raise SortError("bad as")
    if not is_sym(h):
        raise SortError("bad head " + sexpr_str(h))
    op = h.val
    if op in env or (op not in BUILTINS and op not in sig.funs and op not in sig.defs):
        raise SortError("unknown function " + op)
    if h.kind == "sym" and op in BUILTINS:
        # numeric literal shapes printed by solvers: (- 3)  (/ 1 2)  (- (/ 1 2))
        wantarg = None
        if op in ("+", "-", "*", "/", "<=", "<", ">=", ">", "=", "distinct", "ite"):
            wantarg = want if op in ("+", "-", "*", "ite") else None
            if op == "/":
                wantarg = REAL
        args = [parse_term(a, tb, sig, env, wantarg, named, inline_defs) for a in x[1:]]
        if op in ("=", "distinct", "<=", "<", ">=", ">", "+", "-", "*", "ite") and \
           any(tb.sort(a) == REAL for a in (args[1:] if op == "ite" else args)):
            # integer numerals next to Real terms are Real numerals
            args = [tb.num(tb.value_of(a), REAL) if (tb.rec(a)["k"] == "n" and tb.sort(a) == INT and
                                                    not (op == "ite" and j == 0)) else a
                    for j, a in enumerate(args)]
        # fold literal shapes into constants
        if op == "-" and len(args) == 1 and tb.rec(args[0])["k"] == "n":
            return tb.num(-tb.value_of(args[0]), tb.sort(args[0]))
        if op == "/" and len(args) == 2 and all(tb.rec(a)["k"] == "n" for a in args) and tb.value_of(args[1]) != 0 \
           and tb.value_of(args[0]).denominator == 1 and tb.value_of(args[1]).denominator == 1:
            return tb.num(tb.value_of(args[0]) / tb.value_of(args[1]), REAL)
        return tb.app(op, args)
    if op in sig.defs:
        params, body, ret = sig.defs[op]
        args = [parse_term(a, tb, sig, env, ps, named, inline_defs) for a, (_, ps) in zip(x[1:], params)]
        if len(args) != len(params) or len(x) - 1 != len(params):
            raise SortError("arity of " + op)
        for a, (_, ps) in zip(args, params):
            if tb.sort(a) != ps and not (tb.sort(a) == INT and ps == REAL and tb.rec(a)["k"] == "n"):
                raise SortError("argument sort of " + op)
        return tb.uf(op, args, ret)
    argsorts, ret = sig.funs[op]
    if len(x) - 1 != len(argsorts):
        raise SortError("arity of " + op)
    args = [parse_term(a, tb, sig, env, ps, named, inline_defs) for a, ps in zip(x[1:], argsorts)]
    for a, ps in zip(args, argsorts):
        if tb.sort(a) != ps and not (tb.sort(a) == INT and ps == REAL and tb.rec(a)["k"] == "n"):
            raise SortError("argument sort of " + op)
    return tb.uf(op, args, ret)

def parse_model(x, tb, sig):
    """(get-model) output -> list of {nm, p, b} (the shape Terms!InterpOf expects).
    Accepts  ( (define-fun f ((x S)) R body) ... )  and the older (model ...) wrapper."""
    if not isinstance(x, list):
        raise SortError("model is not a list")
    if x and is_sym(x[0], "model"):
        x = x[1:]
    out = []
    seen = set()
    for d in x:
        if not (isinstance(d, list) and len(d) == 5 and is_sym(d[0], "define-fun") and is_sym(d[1])
                and isinstance(d[2], list)):
            raise SortError("bad model entry " + sexpr_str(d))
        nm = d[1].val
        if nm in seen:
            raise SortError("symbol defined twice in model: " + nm)
        seen.add(nm)
        params = []
        env = {}
        for p in d[2]:
            if not (isinstance(p, list) and len(p) == 2 and is_sym(p[0])):
                raise SortError("bad parameter")
            ps = parse_sort(p[1], sig)
            params.append((p[0].val, ps))
            env[p[0].val] = ps
        if len(env) != len(params):
            raise SortError("duplicate parameter in " + nm)
        ret = parse_sort(d[3], sig)
        if nm in sig.funs:
            if tuple(ps for _, ps in params) != tuple(sig.funs[nm][0]) or ret != sig.funs[nm][1]:
                raise SortError("model signature of %s differs from its declaration" % nm)
        # the body may mention only parameters and values
        msig = Signature()
        msig.sorts = sig.sorts
        body = parse_term(d[4], tb, msig, env, ret)
        if tb.sort(body) != ret and not (tb.sort(body) == INT and ret == REAL):
            raise SortError("model body sort of " + nm)
        out.append({"nm": nm, "p": [p for p, _ in params], "b": body})
    return out
