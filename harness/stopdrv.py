"""stop_driver experiments -> Script_Trace events (C25): every poll point of small instances."""
import os, json, random, subprocess, tempfile, copy
import gen as G
import core as C
import builders as B
from smtlib import INT

def driver(flavour="rel"):
    return os.path.join(C.BUILD, "drivers", flavour, "stop_driver")

def run_stop(path, mode, k, delay=0, flavour="rel", timeout=20):
    env = dict(os.environ)
    env["TSAN_OPTIONS"] = "halt_on_error=0:exitcode=96"
    try:
        p = subprocess.run([driver(flavour), path, mode, str(k), str(delay)], stdout=subprocess.PIPE, stderr=subprocess.PIPE, timeout=timeout, env=env)
    except subprocess.TimeoutExpired:
        return {"res": "timeout", "polls": 0, "rc": -9, "san": False, "err": ""}
    err = p.stderr.decode("utf-8", "replace")
    san = "ThreadSanitizer" in err or "AddressSanitizer" in err or "runtime error:" in err
    out = p.stdout.decode("utf-8", "replace")
    res = {"res": "crash", "polls": 0}
    for ln in out.split("\n"):
        if ln.startswith('{"res"'):
            try:
                res = json.loads(ln)
            except Exception:
                pass
    res.update({"rc": p.returncode, "san": san, "err": err[-1500:]})
    return res

def b_stop(job):
    rng = random.Random(job["seed"])
    g = G.Gen(rng, job["logic"], nnum=job.get("nnum", 3))
    # one non-incremental instance, hard enough to have several poll points
    n = job.get("n_atoms", 9)
    atoms = g.atom_pool(n)
    tb = g.tb
    body = [{"c": "assert", "t": b, "nm": "", "inner": []} for b in g.box_asserts()]
    if job.get("mode") == "integrality" and g.num == INT and not g.dl:
        # instances decided only by the complete integer check (branch and bound / cuts): parity and divisibility
        # constraints between boxed variables inside Boolean structure
        def c(v): return tb.num(v, INT)
        xs = g.nums
        for v in xs:
            body.append({"c": "assert", "t": tb.app("and", [tb.app("<=", [c(0), v]), tb.app("<=", [v, c(rng.randint(4, 7))])]), "nm": "", "inner": []})
        def window(coef, v, w, k, lo, hi):
            t = tb.app("+", [tb.app("*", [c(coef), v]), tb.app("*", [c(coef * rng.choice([1, -1])), w])])
            return [tb.app("<=", [c(coef * k + lo), t]), tb.app("<=", [t, c(coef * k + hi)])]
        cases = []
        def both(lo, t):      # lo <= t <= lo as two inequalities (an equality would be normalised away by a gcd test)
            return [tb.app("<=", [lo, t]), tb.app("<=", [t, lo])]
        for _ in range(rng.randint(2, 3)):
            a = rng.choice([2, 3, 4])
            if len(xs) >= 3 and rng.random() < 0.7:
                # v is a multiple of a and at the same time a multiple of a plus r: only branching or cuts refute it
                v, q1, q2 = rng.sample(xs, 3)
                r_ = rng.randint(1, a - 1)
                cases.append(tb.app("and", both(tb.app("*", [c(a), q1]), v) + both(tb.app("+", [tb.app("*", [c(a), q2]), c(r_)]), v)))
            else:
                v, w = rng.sample(xs, 2)
                cases.append(tb.app("and", window(a, v, w, rng.randint(0, 3), 1, a - 1) + ([rng.choice(atoms)] if rng.random() < 0.3 else [])))
        body.append({"c": "assert", "t": tb.app("or", cases) if len(cases) > 1 else cases[0], "nm": "", "inner": []})
        n = max(3, n // 3)
    for _ in range(int(job.get("ratio", 4.0) * n)):
        k = rng.choice([2, 3, 3])
        lits = [tb.app("not", [a]) if rng.random() < 0.5 else a for a in rng.sample(atoms, min(k, len(atoms)))]
        body.append({"c": "assert", "t": tb.app("or", lits) if len(lits) > 1 else lits[0], "nm": "", "inner": []})
    # non-incremental mode runs variable elimination and subsumption before the search: more poll points, other code
    o_ = (B._opts("models") if not g.arr else []) + (B._opts("noinc") if job.get("noinc") else [])
    pre = G.preamble(g, o_)
    fam = C.Family(g)
    base_cmds = pre + body + [{"c": "check-sat"}] + ([{"c": "get-model"}] if not g.arr else [])
    base = fam.add_run("s", "c0", "main", base_cmds)
    evs = fam.events()
    # the events of the baseline run, to be cloned for every stop experiment
    run_start = next(i for i, e in enumerate(evs) if e["e"] == "Run")
    base_evs = evs[run_start:]
    text = G.render_script(pre + body, tb, markers=False)
    os.makedirs(C.SCRATCH, exist_ok=True)
    fd, path = tempfile.mkstemp(suffix=".smt2", dir=C.SCRATCH)
    with os.fdopen(fd, "w") as f:
        f.write(text)
    flavour = job.get("flavour", "rel")
    exps = []
    try:
        cnt = run_stop(path, "count", 0, flavour=flavour)
        npolls = cnt.get("polls", 0)
        ks = list(range(1, min(npolls, job.get("max_k", 40)) + 1))
        for k in ks:
            for mode in ("local", "global"):
                r = run_stop(path, mode, k, flavour=flavour)
                exps.append((mode, k, r))
        for _ in range(job.get("threads", 0)):
            mode = rng.choice(["thread-local", "thread-global"])
            d = rng.randint(0, 3000)
            r = run_stop(path, mode, 0, delay=d, flavour=flavour)
            exps.append((mode, d, r))
        exps.append(("count", 0, cnt))
    finally:
        os.unlink(path)
    out = list(evs)
    answers = [a for a in base.get("answers", [])]
    sanitizer = 0
    for mode, k, r in exps:
        clone = copy.deepcopy(base_evs)
        for e in clone:
            if e["e"] == "Run":
                e["kind"] = "stop"; e["cfg"] = "%s@%d" % (mode, k)
            elif e["e"] == "Cmd" and e["c"] == "check-sat":
                e["r"] = r["res"] if r["res"] in ("sat", "unsat", "unknown") else "unknown"
            elif e["e"] == "Exit":
                e["status"] = 0 if r["res"] in ("sat", "unsat", "unknown") else 1
                e["sig"] = 0 if r["res"] != "crash" else 6
                e["san"] = bool(r["san"]); e["det"] = False; e["nerr"] = 0; e["synerr"] = False; e["site"] = ""
        # drop the get-model event of the baseline (the stop run prints no model)
        clone = [e for e in clone if not (e["e"] == "Cmd" and e["c"] == "get-model")]
        out += clone
        answers.append(r["res"])
        sanitizer += 1 if r["san"] else 0
    sample = {"builder": "stop", "logic": job["logic"], "seed": job["seed"], "script": text[:1200], "polls": npolls,
              "baseline": base.get("answers", []), "experiments": [(m, k, r["res"]) for m, k, r in exps[:12]]}
    return {"events": out, "runs": len(exps) + 1, "sample": sample, "nontrivial": npolls >= 2 and any(a in ("sat", "unsat") for a in base.get("answers", [])),
            "texts": [{"sid": "s", "cfg": "c0", "kind": "main", "io": "file", "text": text, "out": json.dumps([(m, k, r["res"], r["err"][-300:] if r["san"] else "") for m, k, r in exps])[:4000], "status": 0, "sig": 0}],
            "stats": dict(fam.stats, answers=answers, sanitizer_reports=sanitizer, polls=npolls)}

B.BUILDERS["stop"] = b_stop
