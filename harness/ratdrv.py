"""rat_driver conversations -> events for spec/trace/Rat_Trace.tla (C15)."""
import os, json, random, subprocess, math
from fractions import Fraction
import core as C
import builders as B

DRIVER = os.path.join(C.BUILD, "drivers", "rel", "rat_driver")

def big(n):
    n = int(n)
    neg = n < 0
    a = abs(n)
    m = []
    while a:
        m.append(a % 10000); a //= 10000
    return {"neg": bool(neg and m), "m": m}

def egcd(a, b):
    """-> (g, s, t) with s*a + t*b = g = gcd(a,b) >= 0"""
    if b == 0:
        return (abs(a), (1 if a >= 0 else -1), 0)
    g, s, t = egcd(b, a % b)
    return (g, t, s - (a // b) * t)

POOL = [0, 1, -1, 2, -2, 3, 7, 2**31 - 1, 2**31, -2**31, -2**31 + 1, -2**31 - 1, 2**32 - 1, 2**32, 2**32 + 1, 2**53, 2**53 + 1,
        2**62, 2**63 - 1, 2**63, -2**63, 2**64, 10**9, 10**18 + 9]
FRACS = ["1/2", "-1/2", "1/3", "2/3", "-7/2", "4/6", "-6/4", "2147483647/2", "1/2147483647", "1/4294967295", "4294967296/3",
         "1/4294967296", "2147483648/2147483647", "-2147483648/3", "9223372036854775807/9223372036854775806", "3/18446744073709551616",
         "4294967295/4294967294", "65536/65537", "6/3", "0/5"]

class Conv:
    def __init__(self):
        self.p = subprocess.Popen([DRIVER], stdin=subprocess.PIPE, stdout=subprocess.PIPE, stderr=subprocess.PIPE)
        self.log = []
    def ask(self, line):
        self.log.append(line)
        self.p.stdin.write((line + "\n").encode()); self.p.stdin.flush()
        out = self.p.stdout.readline().decode()
        if not out:
            raise RuntimeError("driver died after: " + line)
        self.log.append("  -> " + out.strip())
        return json.loads(out)
    def close(self):
        try:
            self.p.stdin.close(); self.p.wait(timeout=5)
        except Exception:
            self.p.kill()

def parse_val(s):
    if "/" in s:
        n, d = s.split("/")
        return int(n), int(d)
    return int(s), 1

def value_fields(o):
    n, d = parse_val(o["v"])
    g, s, t = egcd(n, d)
    return {"n": big(n), "d": big(d), "w": bool(o["w"]), "m": bool(o["m"]), "hash": o["hash"] % 1000000007, "wf": bool(o["wf"])}, (n, d), {"s": big(s), "t": big(t)}

ZERO = big(0)
def cert(**kw):
    c = {"s": ZERO, "t": ZERO, "q": ZERO, "u": ZERO, "v": ZERO, "gs": ZERO, "gt": ZERO}
    c.update(kw)
    return c

def b_rat(job):
    rng = random.Random(job["seed"])
    cv = Conv()
    events = [{"e": "Reset"}]
    vals = {}       # id -> (n, d) as printed
    nid = 0
    stats = {"ops": 0, "mpq_results": 0, "word_results": 0, "back_to_word": 0}
    try:
        lits = [str(v) for v in rng.sample(POOL, 12)] + rng.sample(FRACS, 8)
        for s in lits:
            nid += 1
            o = cv.ask("lit %d %s" % (nid, s))
            if "err" in o:
                events.append({"e": "err", "i": nid}); continue
            f, nd, c = value_fields(o)
            sn, sd = parse_val(s)
            vals[nid] = nd
            ev = dict(f); ev.update({"e": "lit", "i": nid, "src": {"n": big(sn), "d": big(sd)}, "cert": cert(**c)})
            events.append(ev)
        ids = list(vals)
        for _ in range(job.get("size", 60)):
            kind = rng.random()
            a = rng.choice(ids); b = rng.choice(ids)
            if rng.random() < 0.5:
                a = rng.choice(ids[-8:])
            an, ad = vals[a]; bn, bd = vals[b]
            if kind < 0.75:
                op = rng.choice(["add", "sub", "mul", "div", "addassign", "subassign", "mulassign", "divassign", "neg", "negate", "inv",
                                 "floor", "ceil", "num", "den", "gcd", "lcm", "fdivq", "mod", "abs", "copy", "add", "mul", "sub", "div"])
                if op in ("div", "divassign") and bn == 0: continue
                if op == "inv" and an == 0: continue
                if op in ("gcd", "lcm", "fdivq", "mod") and (ad != 1 or bd != 1): continue
                if op in ("fdivq", "mod") and bn == 0: continue
                if op in ("gcd", "lcm") and (an == 0 or bn == 0): continue
                if max(abs(an), ad, abs(bn), bd) > 2**70: continue
                nid += 1
                unary = op in ("neg", "negate", "inv", "floor", "ceil", "num", "den", "abs", "copy")
                o = cv.ask("op %d %s %d%s" % (nid, op, a, "" if unary else " %d" % b))
                if "err" in o:
                    events.append({"e": "err", "i": nid}); continue
                f, nd, c = value_fields(o)
                vals[nid] = nd; ids.append(nid)
                extra = {}
                rn = nd[0]
                if op == "mod":
                    extra["q"] = big((an - rn) // bn) if bn else ZERO
                if op == "gcd" and rn:
                    g, s, t = egcd(an, bn)
                    extra.update({"u": big(an // rn) if an % rn == 0 else ZERO, "v": big(bn // rn) if bn % rn == 0 else ZERO})
                    k = rn // g if g and rn % g == 0 else 0
                    extra.update({"gs": big(s * k), "gt": big(t * k)})
                if op == "lcm" and an and bn:
                    u = rn // abs(an) if rn % abs(an) == 0 else 0
                    v = rn // abs(bn) if rn % abs(bn) == 0 else 0
                    g, s, t = egcd(u, v)
                    extra.update({"u": big(u), "v": big(v), "gs": big(s), "gt": big(t)})
                ev = dict(f); ev.update({"e": "op", "i": nid, "op": op, "a": a, "b": 0 if unary else b, "cert": cert(**dict(c, **extra))})
                events.append(ev)
                stats["ops"] += 1
                stats["mpq_results" if not f["w"] else "word_results"] += 1
            else:
                op = rng.choice(["cmp", "eq", "lt", "le", "sign", "isint", "iszero", "isone"])
                nid += 1
                unary = op in ("sign", "isint", "iszero", "isone")
                o = cv.ask("q %d %s %d%s" % (nid, op, a, "" if unary else " %d" % b))
                if "err" in o:
                    events.append({"e": "err", "i": nid}); continue
                events.append({"e": "q", "i": nid, "op": op, "a": a, "b": 0 if unary else b, "r": o["r"]})
                stats["ops"] += 1
    except (RuntimeError, json.JSONDecodeError, ValueError) as ex:
        stats["aborted"] = repr(ex)[:200]
    cv.close()
    sample = {"builder": "rat", "seed": job["seed"], "conversation": cv.log[:50], "stats": stats}
    return {"events": events, "runs": 1, "sample": sample, "nontrivial": stats["ops"] > 10 and stats["mpq_results"] > 0,
            "texts": [{"sid": "r", "cfg": "", "kind": "driver", "io": "stdin", "text": "\n".join(cv.log), "out": "", "status": 0, "sig": 0}],
            "stats": dict(stats, answers=[])}

B.BUILDERS["rat"] = b_rat
