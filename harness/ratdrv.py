"""rat_driver conversations -> events for spec/trace/Rat_Trace.tla (C15)."""
import os, json, random, subprocess, math
from fractions import Fraction
import core as C
import builders as B

DRIVER = os.path.join(C.BUILD, "drivers", "rel", "rat_driver")

def big(n):
    n = int(n)
    neg = n < 0
    a = abs(n)
    m = []
    while a:
        m.append(a % 10000); a //= 10000
    return {"neg": bool(neg and m), "m": m}

def egcd(a, b):
    """-> (g, s, t) with s*a + t*b = g = gcd(a,b) >= 0"""
    if b == 0:
        return (abs(a), (1 if a >= 0 else -1), 0)
    g, s, t = egcd(b, a % b)
    return (g, t, s - (a // b) * t)

POOL = [0, 1, -1, 2, -2, 3, 7, 2**31 - 1, 2**31, -2**31, -2**31 + 1, -2**31 - 1, 2**32 - 1, 2**32, 2**32 + 1, 2**53, 2**53 + 1,
        2**62, 2**63 - 1, 2**63, -2**63, 2**64, 10**9, 10**18 + 9]
FRACS = ["1/2", "-1/2", "1/3", "2/3", "-7/2", "4/6", "-6/4", "2147483647/2", "1/2147483647", "1/4294967295", "4294967296/3",
         "1/4294967296", "2147483648/2147483647", "-2147483648/3", "9223372036854775807/9223372036854775806", "3/18446744073709551616",
         "4294967295/4294967294", "65536/65537", "6/3", "0/5",
         # denominators between 2^31 and 2^32 (they fit the unsigned word but not the signed one), both signs of the numerator
         "-1/4294967295", "-3/4294967293", "7/4294967295", "-7/2147483649", "5/2147483649", "2147483647/2147483649", "-2147483647/4294967291",
         # small numerator over a denominator of 33 to 64 bits
         "1/100000000000", "3/40000000000", "-1/4294967297", "1/18446744073709551615"]

class Conv:
    def __init__(self):
        self.p = subprocess.Popen([DRIVER], stdin=subprocess.PIPE, stdout=subprocess.PIPE, stderr=subprocess.PIPE)
        self.log = []
    def ask(self, line):
        self.log.append(line)
        self.p.stdin.write((line + "\n").encode()); self.p.stdin.flush()
        # one answer line per request; a driver that does not answer within the bound is killed (a change that
        # makes a solver loop must not hang the harness)
        import select
        if not select.select([self.p.stdout], [], [], 30)[0]:
            self.p.kill()
            raise RuntimeError("driver timeout after: " + line)
        out = self.p.stdout.readline().decode()
        if not out:
            raise RuntimeError("driver died after: " + line)
        self.log.append("  -> " + out.strip())
        return json.loads(out)
    def close(self):
        try:
            self.p.stdin.close(); self.p.wait(timeout=5)
        except Exception:
            self.p.kill()

def parse_val(s):
    if "/" in s:
        n, d = s.split("/")
        return int(n), int(d)
    return int(s), 1

def value_fields(o):
    n, d = parse_val(o["v"])
    g, s, t = egcd(n, d)
    return {"n": big(n), "d": big(d), "w": bool(o["w"]), "m": bool(o["m"]), "hash": o["hash"] % 1000000007, "wf": bool(o["wf"])}, (n, d), {"s": big(s), "t": big(t)}

ZERO = big(0)
def cert(**kw):
    c = {"s": ZERO, "t": ZERO, "q": ZERO, "u": ZERO, "v": ZERO, "gs": ZERO, "gt": ZERO}
    c.update(kw)
    return c

def b_rat(job):
    rng = random.Random(job["seed"])
    cv = Conv()
    events = [{"e": "Reset"}]
    vals = {}       # id -> (n, d) as printed
    nid = 0
    stats = {"ops": 0, "mpq_results": 0, "word_results": 0, "back_to_word": 0}
    try:
        lits = [str(v) for v in rng.sample(POOL, 12)] + rng.sample(FRACS, 12)
        for s in lits:
            nid += 1
            o = cv.ask("lit %d %s" % (nid, s))
            if "err" in o:
                events.append({"e": "err", "i": nid}); continue
            f, nd, c = value_fields(o)
            sn, sd = parse_val(s)
            vals[nid] = nd
            ev = dict(f); ev.update({"e": "lit", "i": nid, "src": {"n": big(sn), "d": big(sd)}, "cert": cert(**c)})
            events.append(ev)
        ids = list(vals)
        accs = []
        hot = [None]
        # ---- representation-state suite: an object in each of the states (word only, GMP only, both parts valid), every
        # in-place operation, every kind of operand; afterwards two operations that go through GMP expose a stale part
        def s_lit(v):
            nonlocal nid
            nid += 1
            o = cv.ask("lit %d %s" % (nid, v))
            if "err" in o:
                events.append({"e": "err", "i": nid}); return None
            f, nd, c = value_fields(o)
            sn, sd = parse_val(str(v))
            vals[nid] = nd; ids.append(nid)
            ev = dict(f); ev.update({"e": "lit", "i": nid, "src": {"n": big(sn), "d": big(sd)}, "cert": cert(**c)})
            events.append(ev)
            return nid
        def s_ip(op, a, b=None):
            nonlocal nid
            nid += 1
            o = cv.ask("ip %d %s %d%s" % (nid, op, a, "" if b is None else " %d" % b))
            if "err" in o:
                events.append({"e": "err", "i": nid}); return None, o
            f, nd, c = value_fields(o)
            vals[nid] = nd; ids.append(nid); ids.remove(a)
            ev = dict(f); ev.update({"e": "op", "i": nid, "op": op, "a": a, "b": 0 if b is None else b, "cert": cert(**c)})
            events.append(ev)
            stats["ops"] += 1; stats["inplace"] = stats.get("inplace", 0) + 1
            if o.get("w") and o.get("m"): stats["both_valid"] = stats.get("both_valid", 0) + 1
            return nid, o
        def s_ip3(op, d, a, b):
            nonlocal nid
            nid += 1
            o = cv.ask("ip3 %d %s %d %d %d" % (nid, op, d, a, b))
            if "err" in o:
                events.append({"e": "err", "i": nid}); return None
            f, nd, c = value_fields(o)
            vals[nid] = nd; ids.append(nid); ids.remove(d)
            ev = dict(f); ev.update({"e": "op", "i": nid, "op": op, "a": a, "b": b, "cert": cert(**c)})
            events.append(ev)
            stats["ops"] += 1; stats["ip3"] = stats.get("ip3", 0) + 1
            return nid
        # three-argument forms writing into a destination that holds something else (as polynomial merging does): the
        # destination in each representation state, operands small and big, then an operation through GMP on the result
        for _ in range(job.get("suite3", 10)):
            dkind = rng.choice(["W", "M", "M", "WM"])
            bigv = rng.choice([3000000000, 2**31, 2**32 + 5, -2**31 - 1, 2**40 + 3, 9999999999]) + rng.randint(0, 9)
            d = s_lit(rng.randint(-9, 9) or 1) if dkind == "W" else s_lit(bigv)
            if d is None: continue
            if dkind == "WM":
                bb = s_lit(rng.randint(1, 5) - bigv)
                if bb is None: continue
                d, _o = s_ip("addassign", d, bb)
                if d is None: continue
            a = s_lit(rng.choice([rng.randint(-9, 9) or 2, 100000, 2**33 + 1, "7/3", bigv]))
            b = s_lit(rng.choice([rng.randint(-9, 9) or 3, 7, 2**20, "5/2", 1]))
            if a is None or b is None: continue
            op3 = rng.choice(["mul", "mul", "add", "sub", "div"])
            if op3 == "div" and vals[b][0] == 0: continue
            r3 = s_ip3(op3, d, a, b)
            if r3 is None: continue
            g1 = s_lit(rng.choice([2**33 + rng.randint(1, 9), 9999999999, "1/4294967297"]))
            if g1 is not None:
                r4, _o = s_ip(rng.choice(["addassign", "mulassign"]), r3, g1)
        # rounding of values in the GMP representation, both signs, non-integers
        def s_op1(op, a):
            nonlocal nid
            nid += 1
            o = cv.ask("op %d %s %d" % (nid, op, a))
            if "err" in o:
                events.append({"e": "err", "i": nid}); return None
            f, nd, c = value_fields(o)
            vals[nid] = nd; ids.append(nid)
            ev = dict(f); ev.update({"e": "op", "i": nid, "op": op, "a": a, "b": 0, "cert": cert(**c)})
            events.append(ev)
            stats["ops"] += 1
            return nid
        for v in rng.sample(["-10000000001/2", "10000000001/2", "-20000000003/6", "-9223372036854775807/2", "9223372036854775809/4",
                             "-4294967297/4294967296", "-1/4294967297", "-3000000001/3", "-7/4294967295", "2147483649/2"], 4):
            a = s_lit(v)
            if a is not None:
                s_op1("ceil", a); s_op1("floor", a)
        combos = [(st, op, kd) for st in ("W", "M", "WM") for op in ("addassign", "subassign", "mulassign", "divassign", "negate")
                  for kd in ("si", "neg", "sf", "bi", "bf")]
        rng.shuffle(combos)
        for st, op, kd in combos[:job.get("suite", 24)]:
            bigv = rng.choice([3000000000, 2**31, 2**32 + 5, -2**31 - 1, 2**40 + 3]) + rng.randint(0, 9)
            small = rng.randint(-6, 6) or 1
            if st == "W":
                a = s_lit(small)
            elif st == "M":
                a = s_lit(bigv)
            else:
                a = s_lit(bigv)
                bb = s_lit(small - bigv)
                if a is None or bb is None: continue
                a, _o = s_ip("addassign", a, bb)
            if a is None: continue
            operand = {"si": rng.randint(1, 9), "neg": -rng.randint(1, 9), "sf": "%d/%d" % (rng.randint(1, 9), rng.choice([2, 3, 7])),
                       "bi": 2**40 + rng.randint(1, 99), "bf": "%d/3" % (2**40 + 1 + 3 * rng.randint(0, 9))}[kd]
            b = None if op == "negate" else s_lit(operand)
            if op != "negate" and b is None: continue
            a, _o = s_ip(op, a, b)
            if a is None: continue
            g1 = s_lit(2**33 + rng.randint(1, 9))
            if g1 is None: continue
            a, _o = s_ip("mulassign", a, g1)
            if a is None: continue
            g2 = s_lit(rng.randint(1, 5))
            if g2 is not None:
                s_ip("addassign", a, g2)
        for _ in range(job.get("size", 60)):
            kind = rng.random()
            a = rng.choice(ids); b = rng.choice(ids)
            if rng.random() < 0.5:
                a = rng.choice(ids[-8:])
            an, ad = vals[a]; bn, bd = vals[b]
            if kind < 0.75:
                op = rng.choice(["add", "sub", "mul", "div", "addassign", "subassign", "mulassign", "divassign", "neg", "negate", "inv",
                                 "floor", "ceil", "num", "den", "gcd", "lcm", "fdivq", "mod", "abs", "copy", "add", "mul", "sub", "div"])
                if hot[0] is not None and hot[0] in vals and hot[0] in ids and rng.random() < 0.85:
                    # an object whose word part and GMP part are both valid: every in-place operation must keep them in step
                    a = hot[0]; an, ad = vals[a]
                    op = rng.choice(["addassign", "subassign", "mulassign", "divassign", "negate", "addassign", "subassign"])
                    b = rng.choice(ids)
                    if rng.random() < 0.6:
                        b = rng.choice([i for i in ids if abs(vals[i][0]) < 2**20 and vals[i][1] < 2**20] or ids)
                    bn, bd = vals[b]
                    force_ip = True
                elif rng.random() < 0.3:
                    op = rng.choice(["addassign", "subassign", "mulassign", "divassign", "negate"])
                    force_ip = True
                else:
                    force_ip = False
                if op in ("div", "divassign") and bn == 0: continue
                if op == "inv" and an == 0: continue
                if op in ("gcd", "lcm", "fdivq", "mod") and (ad != 1 or bd != 1): continue
                if op in ("fdivq", "mod") and bn == 0: continue
                if op in ("gcd", "lcm") and (an == 0 or bn == 0): continue
                if max(abs(an), ad, abs(bn), bd) > 2**70: continue
                nid += 1
                unary = op in ("neg", "negate", "inv", "floor", "ceil", "num", "den", "abs", "copy")
                inplace = op in ("addassign", "subassign", "mulassign", "divassign", "negate") and a != b and (force_ip or rng.random() < 0.6)
                if inplace and accs and hot[0] is None and rng.random() < 0.7:
                    # continue a chain of in-place operations on one object
                    a = accs[-1]; an, ad = vals[a]
                    if a == b: inplace = False
                if inplace and op in ("addassign", "subassign") and ad == 1 and abs(an) >= 2**31 and rng.random() < 0.5:
                    # an operand that brings the big value back into the range of the word representation
                    small = rng.randint(-3, 3)
                    want = small - an if op == "addassign" else an - small
                    o2 = cv.ask("lit %d %d" % (nid, want))
                    if "err" not in o2:
                        f2, nd2, c2 = value_fields(o2)
                        vals[nid] = nd2; ids.append(nid)
                        ev2 = dict(f2); ev2.update({"e": "lit", "i": nid, "src": {"n": big(want), "d": big(1)}, "cert": cert(**c2)})
                        events.append(ev2)
                        b = nid; bn, bd = nd2
                        nid += 1
                if inplace:
                    o = cv.ask("ip %d %s %d%s" % (nid, op, a, "" if unary else " %d" % b))
                    if "err" not in o:
                        ids.remove(a)
                        if a in accs: accs.remove(a)
                        accs.append(nid)
                        stats["inplace"] = stats.get("inplace", 0) + 1
                        hot[0] = nid if (o.get("w") and o.get("m")) else (nid if hot[0] == a and rng.random() < 0.5 else None)
                        if o.get("w") and o.get("m"): stats["both_valid"] = stats.get("both_valid", 0) + 1
                else:
                    o = cv.ask("op %d %s %d%s" % (nid, op, a, "" if unary else " %d" % b))
                if "err" in o:
                    events.append({"e": "err", "i": nid}); continue
                f, nd, c = value_fields(o)
                vals[nid] = nd; ids.append(nid)
                extra = {}
                rn = nd[0]
                if op == "mod":
                    extra["q"] = big((an - rn) // bn) if bn else ZERO
                if op == "gcd" and rn:
                    g, s, t = egcd(an, bn)
                    extra.update({"u": big(an // rn) if an % rn == 0 else ZERO, "v": big(bn // rn) if bn % rn == 0 else ZERO})
                    k = rn // g if g and rn % g == 0 else 0
                    extra.update({"gs": big(s * k), "gt": big(t * k)})
                if op == "lcm" and an and bn:
                    u = rn // abs(an) if rn % abs(an) == 0 else 0
                    v = rn // abs(bn) if rn % abs(bn) == 0 else 0
                    g, s, t = egcd(u, v)
                    extra.update({"u": big(u), "v": big(v), "gs": big(s), "gt": big(t)})
                ev = dict(f); ev.update({"e": "op", "i": nid, "op": op, "a": a, "b": 0 if unary else b, "cert": cert(**dict(c, **extra))})
                events.append(ev)
                stats["ops"] += 1
                stats["mpq_results" if not f["w"] else "word_results"] += 1
            else:
                op = rng.choice(["cmp", "eq", "lt", "le", "sign", "isint", "iszero", "isone"])
                nid += 1
                unary = op in ("sign", "isint", "iszero", "isone")
                o = cv.ask("q %d %s %d%s" % (nid, op, a, "" if unary else " %d" % b))
                if "err" in o:
                    events.append({"e": "err", "i": nid}); continue
                events.append({"e": "q", "i": nid, "op": op, "a": a, "b": 0 if unary else b, "r": o["r"]})
                stats["ops"] += 1
    except (RuntimeError, json.JSONDecodeError, ValueError) as ex:
        stats["aborted"] = repr(ex)[:200]
    cv.close()
    sample = {"builder": "rat", "seed": job["seed"], "conversation": cv.log[:50], "stats": stats}
    return {"events": events, "runs": 1, "sample": sample, "nontrivial": stats["ops"] > 10 and stats["mpq_results"] > 0,
            "texts": [{"sid": "r", "cfg": "", "kind": "driver", "io": "stdin", "text": "\n".join(cv.log), "out": "", "status": 0, "sig": 0}],
            "stats": dict(stats, answers=[])}

B.BUILDERS["rat"] = b_rat
