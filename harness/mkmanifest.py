"""Writes /verif/MANIFEST.json from the plans that exist (run after adding or changing a check)."""
import json, os, sys
sys.path.insert(0, os.path.dirname(os.path.abspath(__file__)))
import plans

VERIF = os.path.dirname(os.path.dirname(os.path.abspath(__file__)))

TEXT = {
 "C01": ("model_checking", "Script.tla + kernel: TLC evaluates witnesses against every unsat answer; trace validation (Script_Trace)",
         "Every check-sat response of generated incremental scripts (13 logic families, several engines) is replayed against the SMT-LIB command "
         "machine Script.tla; an 'unsat' is a violation exactly when the TLA+ kernel (Terms!Eval) has a model of the active assertions. "
         "Bounded scripts; exhaustive only for the small design configurations.",
         "Trusts TLC's evaluation of the kernel and the harness's strict reader; candidate models (z3, other runs) are only evaluated; kernel 'unknown' never alarms.", "6/C01"),
 "C02": ("model_checking", "Script.tla + kernel refutation (exhaustive grid; Refute kernel) in Script_Trace",
         "A 'sat' answer is a violation when the kernel refutes the active assertions (exact in the propositional / boxed-integer fragments, "
         "and for conjunction-level theory refutations); every sat answer is additionally cross-examined through the printed model.",
         "Refutation is only claimed where the kernel is exact; elsewhere unknown.", "6/C02"),
 "C03": ("model_checking", "Terms!Eval of printed models, values and assignments in Script_Trace",
         "get-model output is read back by a strict reader into definitions and evaluated by the kernel on every active assertion; get-value and "
         "get-assignment are compared with the value of the term in that same model.", "get-assignment 'unknown' entries are not flagged (see DESIGN 6/C03).", "6/C03"),
 "C04": ("model_checking", "functional-dependency monitor (memo keyed by the spec's Active set) + fresh-run variants, Script_Trace; MainSolver.tla (assertion-stack machine: frames, ids, unsat flags, firstNotSimplifiedFrame, conflict frame) model-checked exhaustively and bound by MainSolver_Trace replay of hooked executions",
         "Every check-sat of an incremental history is compared with a fresh run on exactly the assertions the specification has on its stack, and with the kernel; every hooked execution of push/pop/insert/simplify/solve is replayed through the frame machine (levels, frame ids, order of simplification, early unsat, conflict frame, ok flag) and every frame flagged unsat is checked against candidate models of its prefix.",
         "Bounded histories (depth <= 3, <= 8 assertions).", "6/C04"),
 "C05": ("model_checking", "memo across configurations in Script_Trace",
         "The same script under up to 15 configurations / logic embeddings; contradicting definitive answers are violations.", "Option space sampled, not exhaustive.", "6/C05"),
 "C06": ("model_checking", "Script.tla core guards (names scoped by the spec; kernel witness for satisfiable cores)", 
         "Named and full cores after every unsat answer; names must be current top-level named assertions of the specification's stack; a core is a violation when the kernel has a model of core+unnamed.",
         "Kernel witness needed; unknown never alarms.", "6/C06"),
 "C07": ("model_checking", "Script.tla irreducibility guard with exact kernel refutation", 
         "With :minimal-unsat-cores every single-element removal is checked; a violation needs an exact refutation of the reduced set.", "Exact only in propositional / boxed-integer fragments.", "6/C07"),
 "C08": ("model_checking", "Script.tla interpolation guards + kernel witnesses, Script_Trace",
         "Each interpolant: A and not I satisfiable, or I and B satisfiable, or a non-shared symbol, or a rejected well-formed request, is a violation.", "Witness-based.", "6/C08"),
 "C09": ("model_checking", "as C08 for k>=3 groups plus the path step I_j and G_{j+1} => I_{j+1}", "Sequence interpolants.", "Witness-based.", "6/C09"),
 "C11": ("model_checking", "CDCLT.tla/Engine_Trace: every hooked theory clause, kernel witness of the negated clause",
         "Hooks at THandler::getConflict/getReason/getNewSplits and root deductions; the kernel evaluates candidate models of the negation of each theory clause.", "Hooks add-only; candidates from z3 are only evaluated.", "6/C11"),
 "C12": ("model_checking", "CDCLT.tla/Engine_Trace: reverse unit propagation written in TLA+ over the hooked clause stream",
         "DRUP-with-theory: every learnt/derived clause must be RUP w.r.t. inputs, theory clauses and earlier learnt clauses.", "Deletions ignored (sound).", "6/C12"),
 "C13": ("model_checking", "Engine_Trace: asserted formulas vs roots given to the CNF converter, kernel witness",
         "A model of the given roots of the active frames that falsifies an asserted formula is a violation.", "Direction 'given unsat, asserted sat' only through C02.", "6/C13"),
 "C18": ("model_checking", "Script.tla reject / exit-status rules over damaged inputs on the ASan+UBSan build",
         "Token-level damage, injected unsupported commands, shuffled order; crashes, sanitizer reports, undiagnosed problems and exit status are judged by the specification's Exit action.", "Inputs come from the generators, not all byte strings.", "6/C18"),
 "C19": ("model_checking", "Script!Reject is UNCHANGED: script with rejected commands replayed against the spec and compared with the clean variant",
         "All later responses must be the ones of the script without the rejected commands.", "", "6/C19"),
 "C20": ("model_checking", "functional-dependency monitor on (script, cfg) across file/pipe and chunk schedules; PipeReader.tla design model",
         "Identical stdout and exit status for file mode and pipe mode under 1..64-byte chunkings.", "", "6/C20"),
 "C21": ("model_checking", "Script.tla scoping of names and definitions (Keep on pop), monitors on cores/assignments/interpolation requests",
         "Scope scenarios with and without :global-declarations.", "", "6/C21"),
 "C23": ("other", "functional-dependency monitor on repeated executions (Script_Trace memoOut)",
         "Each script run 2-3 times with ASLR on, different environment and cwd; byte-identical stdout and exit status.", "Observation only; a behavioural specification cannot explain nondeterminism.", "6/C23"),
 "C26": ("model_checking", "Lin.tla: Farkas combination computed by TLC on every hooked LA conflict",
         "Coefficients positive, all leaves cancel, constant absurd (integer tightening accounted for).", "Small coefficients only (32-bit TLC arithmetic).", "6/C26"),
 "C10": ("model_checking", "Proof.tla (names bound, resolution steps, empty root, activations on the stack, leaves implied) evaluated by TLC on every printed proof",
         "The printed proof is read by the strict reader; every clause of the property statement is a separate monitor; leaves are checked against the roots given to the CNF converter (hook trace) with the kernel.",
         "Leaf justification uses candidate models (witness-based); the premises of the leaf check come from the give hook.", "6/C10"),
 "C16": ("model_checking", "NumLit.tla reference reader (BigInt) evaluated by TLC on every literal",
         "Literal strings through scripts (one assert per literal, value read back with get-value) and through ArithLogic::mkConst; accept/reject and exact value.",
         "API strings: only well-formed literals are judged (the API is lenient with forms such as .5).", "6/C16"),
 "C17": ("exploration", "strict SMT-LIB reader + read-back run validated by Script_Trace",
         "Printed models, values (and echoed terms), full cores, interpolants must read; the printed model is given back to a fresh solver with the assertions.",
         "Dumped queries (:dump-query) are not covered.", "6/C17"),
 "C27": ("model_checking", "IntRound.tla identities checked by TLC on a box and, for every integer value (unbounded), symbolically by Apalache (spec/apalache/IntRoundU.tla); boxed LIA/IDL scripts decided exactly by the kernel's grid",
         "div/mod of both divisor signs (folding and axioms), strict-bound tightening, gcd normalisation, negated difference constraints.",
         "Divisors and coefficients range over -7..7 (the dividend, bounds and variable values are unbounded in the Apalache check).", "6/C27"),
 "C14": ("model_checking", "Terms!Eval on a grid enumerated by TLC; TermStore.tla design model; Terms_Trace over terms_driver",
         "Every constructor call of Logic/ArithLogic (Boolean connectives, ite, =, distinct, +, -, *, /, div, mod, comparisons, select, store, UF) with the returned term; "
         "TLC searches a grid of interpretations (variables, two interpretations of each function symbol, array values) for a point where result and op(args) differ.",
         "Grid, not all interpretations; a found difference is a concrete counterexample.", "6/C14"),
 "C15": ("model_checking", "BigInt.tla arithmetic in TLC over rat_driver traces (cross-multiplication, Bezout and quotient certificates)",
         "Operation sequences on FastRational around the word boundaries; exactness, canonical form, fits-word => word valid, equal values => equal hash/representation.",
         "Decimal-to-limb conversion by the harness is trusted; certificates are verified, not trusted.", "6/C15"),
 "C22": ("model_checking", "TSolver.tla guards with the kernel as consistency oracle (model evaluation / Fourier-Motzkin + congruence-closure refutation); behaviours of MC_TSolver replayed on the real solvers",
         "declare/assert/backtrack/check sequences on LA, EUF, array and difference-logic solvers through TSolverHandler; verdict memo keyed by the literal set.",
         "UF+LA combinations are not driven (they need the purification of the theory). For arrays only inconsistency verdicts and explanations are judged: read-over-store instances come from preprocessing, so a raw SAT of the array solver is not a claim; see DESIGN.", "6/C22"),
 "C24": ("model_checking", "SharedPool.tla (all interleavings of 2 threads under three disciplines) + concurrent executions compared with solo runs by Script_Trace, ThreadSanitizer observed",
         "2-8 instances in concurrent threads, coefficients beyond 2^64; answers must equal the solo answers; TSan reports are violations.",
         "The data-race clause is observed by TSan on the executions, not modelled.", "6/C24"),
 "C25": ("model_checking", "Stop.tla (StopSafe, termination under fairness) + stop injected at every poll point of check(), Script_Trace judges the answer",
         "local and global stop at every poll point 1..K of small instances, plus requests from a second thread under TSan.",
         "Poll points are those of CoreSMTSolver::okContinue.", "6/C25"),
 "C28": ("model_checking", "TermStore.tla (Injective, SubtermsFirst, CommutativeShared checked exhaustively) + the same monitors over observed PTRef identities",
         "Constructor call sequences with repeated and permuted calls; identity is a function of the call, injective w.r.t. structure, larger than the arguments' identities.", "", "6/C28"),
 "C29": ("model_checking", "Script.tla: reject or an answer the kernel does not refute, plus memo against the embedding logic",
         "Out-of-fragment scripts under difference logics and non-linear products.", "", "6/C29"),
 "C30": ("model_checking", "Script_Trace time-out event has no matching action (C30 tag); CDCLT termination at design level",
         "Non-integer scripts under all engines / tracking options / histories must answer within 20 s; includes equality systems over nested uninterpreted terms and deep DAG-shaped terms written with let.", "Bound-based; tower families are not evaluated by the kernel (returning and agreement only).", "6/C30"),
}

def main():
    checks = []
    for pid in sorted(plans.PLANS):
        if pid not in TEXT:
            continue
        cat, tech, text, note, ref = TEXT[pid]
        checks.append({
            "property_id": pid,
            "quick_cmd": "bin/check %s quick" % pid,
            "thorough_cmd": "bin/check %s thorough" % pid,
            "evidence_file": "/verif/evidence/%s.json" % pid,
            "replay_cmd_template": "bin/check --replay {path}",
            "engine": "tlc",
            "level_claimed": {"category": cat, "text": text, "design_ref": "DESIGN.md section " + ref},
            "level_note": note or "TLC 1.8 evaluates the specification; traces come from the hooked or black-box executable.",
            "technique": tech,
        })
    claimed = {c["property_id"] for c in checks}
    na = []
    for i in range(1, 31):
        pid = "C%02d" % i
        if pid not in claimed:
            na.append({"property_id": pid, "reason": NOT_YET.get(pid, "check not built yet in this round (see DESIGN.md section 11)")})
    m = {
        "version": 1,
        "setup_cmd": "bin/setup",
        "hooks": {
            "guard": "OPENSMT_VERIF_TRACE",
            "enable": "cmake -S /repo -B /verif/build/rel -DCMAKE_CXX_FLAGS=-DOPENSMT_VERIF_TRACE (bin/build.sh rel|asan|tsan)",
            "baseline_off_cmd": "cmake --build /repo/_build -j 12 && ctest --test-dir /repo/_build -j8 --timeout 900",
            "source_commits": HOOK_COMMITS,
            "add_only": True,
        },
        "engines": [{"name": "tlc", "path": "/opt/veriftools/tla/tla2tools.jar",
                     "serves_properties": sorted(claimed), "kind_free_text": "TLC 1.8 explicit-state model checker: exhaustive design configurations and trace validation"},
                    {"name": "apalache", "path": "/opt/veriftools/apalache/bin/apalache-mc", "serves_properties": ["C27"],
                     "kind_free_text": "Apalache 0.58 symbolic model checker: the rounding identities of IntRound for unbounded integers (part of the design result of C27)"}],
        "checks": checks,
        "not_applicable": na,
        "notes": "All checks: bin/check <id> <quick|thorough>; specification in /verif/spec; see DESIGN.md.",
    }
    with open(os.path.join(VERIF, "MANIFEST.json"), "w") as f:
        json.dump(m, f, indent=1)
    print("claimed", len(checks), "not applicable", len(na))

NOT_YET = {}
HOOK_COMMITS = ["57dbf80", "9859bf3", "678ed52", "1099a61", "bcb7a71", "82a4b9c", "185528b"]
if __name__ == "__main__":
    main()
