"""SANY-check every module of the specification (in the flattened directory TLC uses)."""
import subprocess, sys, os
sys.path.insert(0, os.path.dirname(os.path.abspath(__file__)))
import tlc
d = tlc._specdir()
bad = 0
for f in sorted(os.listdir(d)):
    if f.endswith(".tla") and "_TTrace_" not in f:
        r = subprocess.run(["java", "-cp", tlc.JAR, "tla2sany.SANY", f], cwd=d, stdout=subprocess.PIPE, stderr=subprocess.STDOUT)
        out = r.stdout.decode()
        if r.returncode != 0 or "Semantic errors" in out or "Parse Error" in out or "Fatal errors" in out:
            print("SANY failed for", f); print(out[-1500:]); bad += 1
print("sany: %d modules checked, %d failed" % (len([f for f in os.listdir(d) if f.endswith('.tla')]), bad))
sys.exit(1 if bad else 0)
