"""terms_driver conversations -> events for spec/trace/Terms_Trace.tla (C14, C28)."""
import os, json, random, subprocess
from fractions import Fraction
import core as C
import builders as B
from smtlib import Table, Signature, read_all, parse_term, SmtError, BOOL, INT, REAL, arr_sort
from engine import TermReader

DRIVER = os.path.join(C.BUILD, "drivers", "rel", "terms_driver")
COMM = {"and", "or", "xor", "=", "distinct", "+", "*"}

def drv_sort(s):
    if s.startswith("(Array"):
        from smtlib import parse_arr_sort
        i, e = parse_arr_sort(s)
        return "Array:%s:%s" % (drv_sort(i), drv_sort(e))
    return s

def b_terms(job):
    rng = random.Random(job["seed"])
    tb = Table()
    A = arr_sort(INT, INT)
    lines = ["sort U", "fun f U U", "fun g U U U", "fun P Bool U", "fun h Int Int", "fun k Real Real",
             "fun ov U U", "fun ov U U U", "fun ov U U U U"]          # one name, three arities
    sigdecl = {"f": (("U",), "U"), "g": (("U", "U"), "U"), "P": (("U",), BOOL), "h": ((INT,), INT), "k": ((REAL,), REAL),
               "ov#1": (("U",), "U"), "ov#2": (("U", "U"), "U"), "ov#3": (("U", "U", "U"), "U")}
    pool = {BOOL: [], INT: [], REAL: [], "U": [], A: []}
    items = {}          # local id -> (table id of the reference term)
    reqs = []           # (local id, op, arg local ids, ref table id)
    nid = [0]
    def new_id():
        nid[0] += 1
        return nid[0]
    def add_var(name, sort):
        i = new_id()
        lines.append("var %d %s %s" % (i, drv_sort(sort), name))
        t = tb.var(name, sort)
        items[i] = t; pool[sort].append(i); reqs.append((i, "var", [], t))
    def add_num(sort, q, lit=None):
        i = new_id()
        q = Fraction(q)
        if lit is None:
            lit = str(q.numerator) if q.denominator == 1 else "%d/%d" % (q.numerator, q.denominator)
        lines.append("num %d %s %s" % (i, sort, lit))
        t = tb.num(q, sort)
        items[i] = t; pool[sort].append(i); reqs.append((i, "num", [], t))
    for n in ("p", "q"): add_var(n, BOOL)
    for n in ("x", "y"): add_var(n, INT)
    for n in ("r", "s"): add_var(n, REAL)
    for n in ("u", "v"): add_var(n, "U")
    for n in ("a", "b"): add_var(n, A)
    big = job.get("big", False)
    for c in [0, 1, -1, 2, 3, -2] + ([2**31 - 1, 2**31, -2**31, 2**32, 2**53 + 1, 2**63, -2**63 - 1] if big else []):
        add_num(INT, c)
    for c in [0, 1, -1, Fraction(1, 2), 2, Fraction(-3, 2)] + ([Fraction(2**31, 3), Fraction(1, 2**32), 2**64] if big else []):
        add_num(REAL, c)
    # Boolean constants through mk: (and) is not available; use p or not p
    ops_bool = ["and", "or", "not", "=>", "xor", "ite", "=", "distinct"]
    ops_num = ["+", "-", "*", "ite"]
    def pick(sort):
        return rng.choice(pool[sort])
    def add_mk(op, args, sort_hint=None):
        i = new_id()
        try:
            if op.startswith("uf:"):
                nm = op[3:]
                ref = tb.uf(nm, [items[a] for a in args], sigdecl[nm][1])
            else:
                ref = tb.app(op, [items[a] for a in args])
        except SmtError:
            nid[0] -= 1
            return None
        lines.append("mk %d %s %s" % (i, op, " ".join(str(a) for a in args)))
        items[i] = ref
        reqs.append((i, op, list(args), ref))
        s = tb.sort(ref)
        if s in pool:
            pool[s].append(i)
        return i
    n = job.get("size", 60)
    if job.get("burst") == "distinct":
        # use up the 32 distinct classes of the term store first: later distinct terms take the fallback encoding
        seen_d = set()
        vpool = {}
        for s_ in (INT, REAL, "U"):
            before = len(pool[s_])
            for nm in ("d1", "d2", "d3", "d4"):
                add_var(nm + s_[0].lower(), s_)
            # variables only: any two arguments can be made equal by an interpretation
            vpool[s_] = [i for i in pool[s_] if tb.rec(items[i])["k"] == "v"]
        tries = 0
        while len(seen_d) < 40 and tries < 600:
            tries += 1
            s_ = rng.choice([INT, REAL, "U"])
            args = tuple(rng.sample(vpool[s_], 3)) if len(vpool[s_]) >= 3 else None
            if args and frozenset(args) not in seen_d and len(set(items[a] for a in args)) == 3:
                if add_mk("distinct", list(args)) is not None:
                    seen_d.add(frozenset(args))
        n += len(seen_d)
    steps = 0
    while len(reqs) < n + 25 and steps < 4 * n:
        steps += 1
        x = rng.random()
        if x < 0.3:
            op = rng.choice(ops_bool)
            if op == "not":
                add_mk(op, [pick(BOOL)])
            elif op == "ite":
                s = rng.choice([BOOL, INT, REAL, "U"])
                add_mk(op, [pick(BOOL), pick(s), pick(s)])
            elif op in ("=", "distinct"):
                s = rng.choice([BOOL, INT, REAL, "U", A])
                k = 2 if (op == "=" or s == A) else rng.choice([2, 3])
                args = [pick(s) for _ in range(k)]
                if rng.random() < 0.2: args[1] = args[0]
                add_mk(op, args)
            else:
                k = 2 if op in ("=>", "xor") else rng.choice([1, 2, 3])
                args = [pick(BOOL) for _ in range(k)]
                if rng.random() < 0.2 and k >= 2: args[1] = args[0]
                add_mk(op, args)
        elif x < 0.65:
            s = rng.choice([INT, REAL])
            op = rng.choice(["+", "-", "*", "<=", "<", ">=", ">", "neg", "div", "mod", "/"])
            if op == "neg":
                add_mk("-", [pick(s)])
            elif op in ("div", "mod"):
                add_mk(op, [pick(INT), pick(INT)])
            elif op == "/":
                add_mk(op, [pick(REAL), pick(REAL)])
            elif op == "*":
                consts = [i for i in pool[s] if tb.rec(items[i])["k"] == "n"]
                a = [rng.choice(consts), pick(s)]
                rng.shuffle(a)
                add_mk(op, a)
            else:
                k = 2 if op in ("<=", "<", ">=", ">", "-") else rng.choice([2, 3])
                args = [pick(s) for _ in range(k)]
                if rng.random() < 0.15: args[1] = args[0]
                add_mk(op, args)
        elif x < 0.8:
            op = rng.choice(["uf:f", "uf:g", "uf:P", "uf:h", "uf:k", "uf:ov#1", "uf:ov#2", "uf:ov#3"])
            if op.startswith("uf:ov") and rng.random() < 0.5:
                # declaring an overload again must give the symbol that exists already
                ar = int(op[-1])
                lines.append("fun ov U" + " U" * ar)
            nm = op[3:]
            add_mk(op, [pick(s) for s in sigdecl[nm][0]])
        else:
            if rng.random() < 0.5:
                add_mk("select", [pick(A), pick(INT)])
            else:
                add_mk("store", [pick(A), pick(INT), pick(INT)])
        # the same commutative application in both argument orders, over arguments of different shape and age
        # (products, sums, plain variables, applications): normalisation must not depend on the order of arrival
        if rng.random() < 0.15:
            s = rng.choice([INT, REAL])
            prods = [i for i, op_, a_, r_ in reqs if op_ in ("*", "+", "ite", "uf:h") and tb.sort(r_) == s]
            if prods:
                a, b = rng.choice(prods), pick(s)
                op2 = rng.choice(["+", "+", "=", "distinct"])
                add_mk(op2, [a, b]); add_mk(op2, [b, a])
                if rng.random() < 0.4:
                    c = pick(s)
                    add_mk("+", [a, b, c]); add_mk("+", [c, a, b]); add_mk("+", [b, c, a])
        # repeat a recent construction, possibly with permuted arguments (hash-consing)
        if rng.random() < 0.3 and reqs:
            i, op, args, ref = rng.choice(reqs[-15:])
            if op not in ("var", "num"):
                a2 = list(args)
                if op in COMM and rng.random() < 0.6:
                    rng.shuffle(a2)
                add_mk(op, a2)
    p = subprocess.run([DRIVER], input=("\n".join(lines) + "\n").encode(), stdout=subprocess.PIPE, stderr=subprocess.PIPE, timeout=60)
    outs = {}
    for ln in p.stdout.decode().split("\n"):
        if ln.strip():
            try:
                o = json.loads(ln)
                outs[o["i"]] = o
            except Exception:
                pass
    rd = TermReader(tb)
    for nm, (a, r) in sigdecl.items():
        rd.sig.funs[nm] = (tuple(a), r)
    rd.sig.sorts.add("U")
    events = []
    xs = {}
    checked = 0
    errs = 0
    for i, op, args, ref in reqs:
        o = outs.get(i)
        if o is None:
            continue
        if "err" in o:
            events.append({"e": "mkerr", "op": op, "args": [items[a] for a in args], "err": o["err"][:100]})
            errs += 1
            continue
        xs[i] = o["x"]
        try:
            res = rd.read(o["t"], tb.sort(ref) if tb.sort(ref) in (INT, REAL) else None)
        except SmtError as ex:
            events.append({"e": "mkerr", "op": op, "args": [items[a] for a in args], "err": "unreadable: " + str(ex)[:80]})
            continue
        s = tb.sort(ref)
        same_sort = tb.sort(res) == s
        if s == BOOL:
            neq = tb.app("xor", [res, ref]) if same_sort else tb.true()
        else:
            neq = tb.app("not", [tb.app("=", [res, ref])]) if same_sort else tb.true()
        mon = tb.max_abs([ref, res]) <= 60 and not has_zero_div(tb, ref)
        if not same_sort:
            events.append({"e": "mkerr", "op": op, "args": [items[a] for a in args], "err": "sort of result differs: %s vs %s" % (tb.sort(res), s)})
            continue
        key = [xs.get(a, -1) for a in args]
        # the property asks for order-insensitivity only where the constructor normalises the order: Logic::mkBinaryEq
        # does not for Boolean arguments (iff goes through the Boolean-operator branch of mkFun, which keeps the order)
        bool_eq = op in ("=", "distinct") and args and tb.sort(items[args[0]]) == BOOL
        if op in COMM and not bool_eq:
            key = sorted(key)
        if op == "num":
            key = [tb.rec(ref)["n"] % 1000003, tb.rec(ref)["d"] % 1000003, 0 if tb.sort(ref) == INT else 1]
        if op == "var":
            key = [i]
        checked += 1 if mon else 0
        events.append({"e": "mk", "op": op, "args": [items[a] for a in args], "key": key, "res": res, "ref": ref, "neq": neq,
                       "mon": bool(mon), "x": o["x"], "kids": o["kids"], "s": tb.sort(ref) + ": " + o["t"]["t"]})
    # grid: values of the variables, interpretations of the function symbols
    def nv(q, s): return tb.num(q, s)
    ca = tb.constarr(A, nv(0, INT))
    dom = [{"nm": "p", "s": BOOL, "vals": [tb.true(), tb.false()]}, {"nm": "q", "s": BOOL, "vals": [tb.true(), tb.false()]},
           {"nm": "x", "s": INT, "vals": [nv(v, INT) for v in (-2, -1, 0, 1, 3)]}, {"nm": "y", "s": INT, "vals": [nv(v, INT) for v in (-3, 0, 1, 2)]},
           {"nm": "r", "s": REAL, "vals": [nv(v, REAL) for v in (-1, 0, Fraction(1, 2), 2)]},
           {"nm": "s", "s": REAL, "vals": [nv(v, REAL) for v in (Fraction(-3, 2), 0, 1)]},
           {"nm": "u", "s": "U", "vals": [tb.uval("@g0", "U"), tb.uval("@g1", "U")]},
           {"nm": "v", "s": "U", "vals": [tb.uval("@g0", "U"), tb.uval("@g1", "U")]},
           {"nm": "a", "s": A, "vals": [ca, tb.app("store", [ca, nv(1, INT), nv(2, INT)])]},
           {"nm": "b", "s": A, "vals": [ca, tb.app("store", [tb.constarr(A, nv(1, INT)), nv(0, INT), nv(0, INT)])]}]
    have = {d["nm"] for d in dom}
    for i, op_, a_, r_ in reqs:
        if op_ == "var":
            nm_, s_ = tb.rec(r_)["nm"], tb.sort(r_)
            if nm_ not in have:
                have.add(nm_)
                vals_ = {INT: [nv(v, INT) for v in (-1, 0, 1)], REAL: [nv(v, REAL) for v in (0, Fraction(1, 2), 1)],
                         "U": [tb.uval("@g0", "U"), tb.uval("@g1", "U")], BOOL: [tb.true(), tb.false()]}.get(s_)
                if vals_:
                    dom.append({"nm": nm_, "s": s_, "vals": vals_})
    g0, g1 = tb.uval("@g0", "U"), tb.uval("@g1", "U")
    q0 = tb.var("q!0", "U"); q1 = tb.var("q!1", "U")
    swap = tb.app("ite", [tb.app("=", [q0, g0]), g1, g0])
    fis = [
        [{"nm": "f", "p": ["q!0"], "b": q0}, {"nm": "g", "p": ["q!0", "q!1"], "b": q1}, {"nm": "P", "p": ["q!0"], "b": tb.app("=", [q0, g0])},
         {"nm": "h", "p": ["q!0"], "b": tb.app("+", [tb.var("q!0", INT), nv(1, INT)])}, {"nm": "k", "p": ["q!0"], "b": tb.var("q!0", REAL)}],
        [{"nm": "f", "p": ["q!0"], "b": swap}, {"nm": "g", "p": ["q!0", "q!1"], "b": g0}, {"nm": "P", "p": ["q!0"], "b": tb.true()},
         {"nm": "h", "p": ["q!0"], "b": nv(0, INT)}, {"nm": "k", "p": ["q!0"], "b": tb.app("*", [nv(2, REAL), tb.var("q!0", REAL)])}],
    ]
    tb.true(); tb.false()
    fam = [{"e": "Fam", "tt": tb.recs, "dom": dom, "fis": fis}]
    sample = {"builder": "terms", "seed": job["seed"], "constructions": len(events), "rejected_by_constructor": errs,
              "example": [{"op": e["op"], "result": e.get("s", e.get("err"))} for e in events[25:33]]}
    return {"events": fam + events, "runs": 1, "sample": sample, "nontrivial": checked > 10, "texts": [{"sid": "t", "cfg": "", "kind": "driver",
            "io": "stdin", "text": "\n".join(lines), "out": p.stdout.decode()[:3000], "status": p.returncode, "sig": 0}],
            "stats": {"answers": [], "constructions": len(events), "c14_checked": checked}}

def has_zero_div(tb, t):
    for j in tb.subterms(t):
        r = tb.rec(j)
        if r["k"] == "a" and r["op"] in ("/", "div", "mod"):
            d = tb.rec(r["a"][1])
            if d["k"] != "n" or d["n"] == 0:
                return True
    return False

B.BUILDERS["terms"] = b_terms
