------------------------------ MODULE TSolver ------------------------------
(***************************************************************************)
(* The incremental interface of a theory solver as THandler uses it        *)
(* (TSolverHandler: declareAtom, assertLit with one backtrack point per    *)
(* literal, popBacktrackPoints, check, getConflict, getDeduction).         *)
(*                                                                         *)
(* State: the stack of asserted literals.  A literal is [t, s] (atom,      *)
(* polarity).  The reference behaviour is defined from a consistency       *)
(* oracle Consistent(set of literals) in {"sat","unsat","unknown"}:        *)
(*   - an inconsistency (assert returning false, check returning UNSAT)    *)
(*     may be reported only for a set that is not "sat";                   *)
(*   - a complete check of an exact theory may report SAT only for a set   *)
(*     that is not "unsat";                                                *)
(*   - an explanation is a subset of the asserted literals that is not     *)
(*     "sat"; a deduced literal's negation is not "sat" with the stack;    *)
(*   - verdicts are a function of the literal SET (history independence).  *)
(* After an inconsistency the user must retract a literal of the           *)
(* explanation before asserting more (CDCL backjumping does this).         *)
(***************************************************************************)
EXTENDS Integers, Sequences, FiniteSets, TLC

CONSTANTS Atoms, MaxDepth

VARIABLES stack, bad, hist
\* bad: the last operation reported an inconsistency that has not been retracted yet
\* hist: the operations so far (for test generation)

Lits(s) == { s[i] : i \in DOMAIN s }
TInit == stack = <<>> /\ bad = FALSE /\ hist = <<>>

\* Guards take the oracle's verdict v for the relevant literal set as a parameter, so that the
\* exhaustive configuration (abstract theory) and the trace specification (kernel) share them.
AssertGuard(ok, v)    == ~ok => v # "sat"                 \* v: verdict of Lits(stack) + the new literal
CheckGuard(res, exact, v) == /\ (res = "UNSAT" => v # "sat")  \* v: verdict of Lits(stack)
                             /\ (res = "SAT" /\ exact => v # "unsat")
ExplGuard(expl, v)    == expl \subseteq Lits(stack) /\ v # "sat"   \* v: verdict of expl
DeduceGuard(v)        == v # "sat"                         \* v: verdict of Lits(stack) + negated deduction

AssertEff(l, ok) ==
  /\ stack' = Append(stack, l) /\ bad' = ~ok
  /\ hist' = Append(hist, [op |-> "assert", t |-> l.t, s |-> l.s])
CheckEff(res) ==
  /\ bad' = (res = "UNSAT") /\ UNCHANGED stack
  /\ hist' = Append(hist, [op |-> "check", t |-> 0, s |-> TRUE])
PopEff(n) ==
  /\ stack' = SubSeq(stack, 1, Len(stack) - n) /\ bad' = FALSE
  /\ hist' = Append(hist, [op |-> "pop", t |-> n, s |-> TRUE])

\* legality of the calls (what THandler guarantees to the solvers)
AssertLegal(l) == ~bad /\ Len(stack) < MaxDepth /\ \A i \in DOMAIN stack : stack[i].t # l.t
CheckLegal == ~bad
PopLegal(n) == n \in 1..Len(stack)

\* design-level statements
NoDuplicateAtoms == \A i, j \in DOMAIN stack : i # j => stack[i].t # stack[j].t
=============================================================================
