----------------------------- MODULE MainSolver -----------------------------
(***************************************************************************)
(* The assertion-stack machine of src/api/MainSolver.cc.                   *)
(*                                                                         *)
(* frames     AssertionStack: one PushFrame per level, each with an id     *)
(*            that is never reused (AssertionStack::frameId), the formulas *)
(*            inserted at that level and the flag PushFrame::unsat ("the   *)
(*            stack with this frame on top is unsatisfiable").             *)
(* fns        firstNotSimplifiedFrame (0-based, as in the code).           *)
(* db         what the SAT engine holds: every root handed over by         *)
(*            giveToSolver, guarded by the literal of its frame id; the    *)
(*            engine is asked with the ids of the current frames enabled.  *)
(* ok, cf     CoreSMTSolver::ok and ::conflict_frame.                      *)
(* status     MainSolver::status.                                         *)
(* pc, st     where check() is: "idle", "simp" (the loop of                *)
(*            simplifyFormulas, st is its local status), "solve".          *)
(* ans        the answer of the check() that has just returned.            *)
(*                                                                         *)
(* One action per critical section of the code: push, pop, insertFormula,  *)
(* the early return of check(), one iteration of the loop in               *)
(* simplifyFormulas (with its giveToSolver), the end of that loop, and     *)
(* the three outcomes of solve().                                          *)
(*                                                                         *)
(* Formulas are opaque; Mods(f) is the set of models of f.  Preprocessing  *)
(* is any function that hands over a root with the same models as the      *)
(* frame's conjunction modulo what the engine already holds for the frames *)
(* below and for this frame (substitutions learnt earlier are applied to   *)
(* later frames).  The engine is any engine whose answer agrees with the   *)
(* enabled part of db; for "unsat" it names a frame k (conflict_frame).    *)
(* The structural part of every action (Do...) does not look at Mods: the  *)
(* trace specification MainSolver_Trace replays recorded executions of the *)
(* real MainSolver through exactly these operators.                        *)
(***************************************************************************)
EXTENDS Naturals, Sequences, FiniteSets

CONSTANTS Formulas,            \* what the user may assert
          AllModels,           \* all models ("worlds")
          Mods(_),             \* models of a formula, a subset of AllModels
          SoundConflictFrame   \* TRUE: the engine names a frame whose prefix is unsatisfiable
                               \* FALSE: an engine that leaves conflict_frame at 0

VARIABLES frames, nextId, fns, db, ok, cf, status, pc, st, ans

msvars == <<frames, nextId, fns, db, ok, cf, status, pc, st, ans>>

Min2(a, b) == IF a <= b THEN a ELSE b
Count    == Len(frames)
Top      == frames[Len(frames)]
Level    == Len(frames) - 1                       \* getAssertionLevel
IdsUpTo(fs, j) == { fs[i + 1].id : i \in 0 .. j }     \* ids of frames 0..j (0-based)

(* ---------------- structural effects (no semantics involved) ---------------- *)
NewFrame(id, inheritUnsat) == [id |-> id, fs |-> << >>, unsat |-> inheritUnsat]
\* rememberUnsatFrame(k): frames k .. top
MarkUnsat(fs, k) == [ i \in 1 .. Len(fs) |-> IF i - 1 >= k THEN [fs[i] EXCEPT !.unsat = TRUE] ELSE fs[i] ]

DoPush ==
  /\ frames' = Append(frames, NewFrame(nextId, Top.unsat))     \* push(): alreadyUnsat is inherited
  /\ nextId' = nextId + 1
  /\ UNCHANGED <<fns, db, ok, cf, status, pc, st>>
DoPop ==
  /\ Len(frames) > 1
  /\ frames' = SubSeq(frames, 1, Len(frames) - 1)
  /\ fns' = Min2(fns, Len(frames) - 1)
  /\ IF ~frames[Len(frames) - 1].unsat THEN ok' = TRUE /\ cf' = 0      \* restoreOK
                                       ELSE UNCHANGED <<ok, cf>>
  /\ UNCHANGED <<nextId, db, status, pc, st>>
DoInsert(f) ==
  /\ frames' = [frames EXCEPT ![Len(frames)].fs = Append(@, f)]
  /\ fns' = Min2(fns, Len(frames) - 1)
  /\ UNCHANGED <<nextId, db, ok, cf, status, pc, st>>
DoCheckEarly ==                       \* isLastFrameUnsat(): nothing is touched, not even status
  UNCHANGED <<frames, nextId, fns, db, ok, cf, status, pc, st>>
DoCheckBegin ==                       \* simplifyFormulas starts: status = s_Undef
  /\ pc' = "simp" /\ st' = "undef" /\ status' = "undef"
  /\ UNCHANGED <<frames, nextId, fns, db, ok, cf>>
\* one loop iteration: frame fns is processed (firstNotSimplifiedFrame = i + 1 comes first in the code),
\* root r is given under the frame's id, the engine may report an inconsistency (res = "unsat").
\* In per-partition mode the code gives one root per formula: DoGive several times (MainSolver_Trace).
DoFrameAdvance == fns' = fns + 1
DoGive(id, r)  == db' = db \cup { [g |-> id, m |-> r] }
DoSimplifyFrame(r, res) ==
  /\ DoFrameAdvance
  /\ DoGive(frames[fns + 1].id, r)
  /\ st' = res
  /\ status' = res
  /\ ok' = IF res = "unsat" /\ frames[fns + 1].id = 0 THEN FALSE ELSE ok
  /\ UNCHANGED <<frames, nextId, cf, pc>>
DoSimplifyUnsat ==                    \* loop left with s_False: rememberUnsatFrame(fns - 1), check() returns
  /\ frames' = MarkUnsat(frames, fns - 1)
  /\ pc' = "idle"
  /\ UNCHANGED <<nextId, fns, db, ok, cf, status, st>>
DoSimplifyDone ==
  /\ pc' = "solve"
  /\ UNCHANGED <<frames, nextId, fns, db, ok, cf, status, st>>
DoSolveSat ==
  /\ status' = "sat" /\ pc' = "idle"
  /\ UNCHANGED <<frames, nextId, fns, db, ok, cf, st>>
DoSolveUnknown ==
  /\ status' = "unknown" /\ pc' = "idle"
  /\ UNCHANGED <<frames, nextId, fns, db, ok, cf, st>>
DoSolveUnsat(k) ==                    \* rememberUnsatFrame(getConflictFrame())
  /\ status' = "unsat" /\ pc' = "idle" /\ ok' = FALSE /\ cf' = k
  /\ frames' = MarkUnsat(frames, k)
  /\ UNCHANGED <<nextId, fns, db, st>>

(* ---------------- semantics ---------------- *)
ModsOfSeq(s) == { w \in AllModels : \A i \in 1 .. Len(s) : w \in Mods(s[i]) }
\* the assertions of frames 0..j
Active(j) == { w \in AllModels : \A i \in 0 .. j : w \in ModsOfSeq(frames[i + 1].fs) }
\* what the engine sees when the frames 0..j are enabled (roots are stored by their model sets)
Live(d, fs, j) == { w \in AllModels : \A e \in d : e.g \in IdsUpTo(fs, j) => w \in e.m }
DbLive(j) == Live(db, frames, j)

(* ---------------- actions of the design ---------------- *)
Push      == pc = "idle" /\ DoPush /\ ans' = "none"
Pop       == pc = "idle" /\ DoPop /\ ans' = "none"
Insert(f) == pc = "idle" /\ DoInsert(f) /\ ans' = "none"
CheckEarly == pc = "idle" /\ Top.unsat /\ DoCheckEarly /\ ans' = "unsat"
CheckBegin == pc = "idle" /\ ~Top.unsat /\ DoCheckBegin /\ ans' = "none"
\* r: the model set of the root handed over for frame fns
SimplifyFrame(r, res) ==
  /\ pc = "simp" /\ st = "undef" /\ fns < Count
  /\ LET i    == fns
         want == ModsOfSeq(frames[i + 1].fs)
         ctx  == DbLive(i)                         \* lower frames and earlier roots of this frame
         live2 == Live(db \cup {[g |-> frames[i + 1].id, m |-> r]}, frames, i)
     IN /\ r \cap ctx = want \cap ctx               \* preprocessing: equivalent in context
        /\ res = "unsat" => /\ live2 = {}           \* the engine reports only real inconsistencies,
                            /\ (r = {} \/ frames[i + 1].id = 0)   \* "false" root, or unguarded clauses
  /\ DoSimplifyFrame(r, res) /\ ans' = "none"
SimplifyUnsat == pc = "simp" /\ st = "unsat" /\ DoSimplifyUnsat /\ ans' = "unsat"
SimplifyDone  == pc = "simp" /\ st = "undef" /\ fns = Count /\ DoSimplifyDone /\ ans' = "none"
SolveSat     == pc = "solve" /\ ok /\ DbLive(Level) # {} /\ DoSolveSat /\ ans' = "sat"
SolveUnknown == pc = "solve" /\ ok /\ DoSolveUnknown /\ ans' = "unknown"
SolveUnsat(k) ==
  /\ pc = "solve" /\ ok /\ DbLive(Level) = {}
  /\ k \in 0 .. Level
  /\ IF SoundConflictFrame THEN DbLive(k) = {} ELSE k = 0
  /\ DoSolveUnsat(k) /\ ans' = "unsat"

Init ==
  /\ frames = << NewFrame(0, FALSE) >> /\ nextId = 1 /\ fns = 0 /\ db = {}
  /\ ok = TRUE /\ cf = 0 /\ status = "undef" /\ pc = "idle" /\ st = "undef" /\ ans = "none"

InsertAny     == \E f \in Formulas : Insert(f)
SimplifyAny   == \E r \in SUBSET AllModels, res \in {"undef", "unsat"} : SimplifyFrame(r, res)
SolveUnsatAny == \E k \in 0 .. Level : SolveUnsat(k)
Next ==
  \/ Push \/ Pop \/ InsertAny
  \/ CheckEarly \/ CheckBegin
  \/ SimplifyAny \/ SimplifyUnsat \/ SimplifyDone
  \/ SolveSat \/ SolveUnknown \/ SolveUnsatAny

Spec == Init /\ [][Next]_msvars

(* ---------------- properties ---------------- *)
TypeOK ==
  /\ \A i \in 1 .. Len(frames) : frames[i].unsat \in BOOLEAN /\ frames[i].id \in 0 .. nextId - 1
  /\ fns \in 0 .. Count /\ ok \in BOOLEAN /\ cf \in 0 .. Count
  /\ pc \in {"idle", "simp", "solve"} /\ st \in {"undef", "unsat"}
  /\ status \in {"undef", "sat", "unsat", "unknown"} /\ ans \in {"none", "sat", "unsat", "unknown"}
\* ids grow along the stack, the base frame is 0
IdsIncrease == frames[1].id = 0 /\ \A i \in 1 .. Len(frames) - 1 : frames[i].id < frames[i + 1].id
\* a set flag is true, and flags are upward closed
UnsatFlagSound == \A i \in 0 .. Level : frames[i + 1].unsat => Active(i) = {}
UnsatUpClosed  == \A i \in 0 .. Level - 1 : frames[i + 1].unsat => frames[i + 2].unsat
\* every simplified frame is represented exactly in the engine
DbCovers == \A j \in 0 .. Level : j < fns => DbLive(j) = Active(j)
\* the engine is dead only while the top of the stack is known to be unsatisfiable ...
OkMeaning == (pc = "idle" /\ ~ok) => Top.unsat
\* ... so solve() never meets a dead engine
OkAtSolve == pc = "solve" => ok /\ fns = Count
\* the answer of check() is the status of the active assertions (refines Script!CheckSat)
AnswerCorrect ==
  /\ ans = "sat"   => Active(Level) # {}
  /\ ans = "unsat" => Active(Level) = {}
\* NOT an invariant (see MC_MainSolver_stale.cfg): MainSolver::status survives pop()
StatusCurrent == (pc = "idle" /\ status = "unsat") => Top.unsat
=============================================================================
