SPECIFICATION MCSpec
CONSTANTS
  Vars <- MCVars
  InputPool <- MCPool
  TIncons <- MCTIncons
  Assumps <- MCAssumps
  MaxLearn = 2
INVARIANTS LearntImplied RUPHolds UnsatSound SatComplete TrailConsistent
CHECK_DEADLOCK FALSE
