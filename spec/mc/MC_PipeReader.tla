---- MODULE MC_PipeReader ----
EXTENDS PipeReader
MCAlphabet == {"(", ")", ";", "\"", "|", "\\", "nl", "a"}
====
