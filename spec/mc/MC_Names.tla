------------------------------ MODULE MC_Names ------------------------------
(* Exhaustive configuration of Names; with Depth > 0 every complete behaviour of that length is printed as an   *)
(* "@@SEQ" line and replayed on the real TermNames class by harness/namesdrv.py (specification -> implementation) *)
EXTENDS Names, Json, TLC
CONSTANTS Depth, MaxScopes
VARIABLE hist
MCInit == NInit /\ hist = << >>
MCNext == \/ \E n \in NameSet, t \in TermSet : TryInsert(n, t) /\ hist' = Append(hist, [op |-> "ins", n |-> n, t |-> t])
          \/ PushScope /\ hist' = Append(hist, [op |-> "push", n |-> "", t |-> 0])
          \/ PopScope /\ hist' = Append(hist, [op |-> "pop", n |-> "", t |-> 0])
MCSpec == MCInit /\ [][MCNext]_<<nvars, hist>>
Bound == Len(hist) <= Depth /\ Len(scopes) <= MaxScopes
Emit == Len(hist) < Depth \/ PrintT("@@SEQ " \o ToJson(hist))
MCView == nvars
MCPopRestores ==
  [][(~Global /\ Len(scopes') < Len(scopes)) => (n2t' = saved[Len(saved)].n2t /\ t2n' = saved[Len(saved)].t2n)]_<<nvars, hist>>
=============================================================================
