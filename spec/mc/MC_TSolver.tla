----------------------------- MODULE MC_TSolver -----------------------------
(* Exhaustive configuration of TSolver with a small abstract theory: atoms  *)
(* 1..3, the inconsistent literal sets are the supersets of the members of  *)
(* Core.  The complete behaviours of length Depth are printed as "@@SEQ"    *)
(* lines; harness/tsolverdrv.py replays each of them on the real solvers    *)
(* with concrete atoms whose inconsistent sets are exactly Core.            *)
EXTENDS TSolver, Json
CONSTANTS Depth
Core == { { [t |-> 1, s |-> TRUE], [t |-> 2, s |-> TRUE] },
          { [t |-> 1, s |-> FALSE], [t |-> 3, s |-> TRUE] },
          { [t |-> 1, s |-> TRUE], [t |-> 2, s |-> FALSE], [t |-> 3, s |-> FALSE] } }
MCConsistent(S) == IF \E c \in Core : c \subseteq S THEN "unsat" ELSE "sat"
TNext == \/ \E a \in Atoms, s \in BOOLEAN, ok \in BOOLEAN :
              LET l == [t |-> a, s |-> s] IN
              AssertLegal(l) /\ AssertGuard(ok, MCConsistent(Lits(stack) \cup {l})) /\ AssertEff(l, ok)
         \/ \E r \in {"SAT", "UNSAT"} : CheckLegal /\ CheckGuard(r, TRUE, MCConsistent(Lits(stack))) /\ CheckEff(r)
         \/ \E n \in 1..2 : PopLegal(n) /\ PopEff(n)
TSpec == TInit /\ [][TNext]_<<stack, bad, hist>>
BadMeansNotSat == bad => MCConsistent(Lits(stack)) # "sat"
\* a correct solver never ends up consistent-and-bad or inconsistent-and-checked-SAT

Bound == Len(hist) <= Depth
Emit == Len(hist) < Depth \/ PrintT("@@SEQ " \o ToJson(hist))
View == <<stack, bad, hist>>
=============================================================================
