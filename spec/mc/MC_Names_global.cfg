SPECIFICATION MCSpec
CONSTANTS
  NameSet = {"a", "b", "c"}
  TermSet = {1, 2}
  Global = TRUE
  Depth = 8
  MaxScopes = 3
CONSTRAINT Bound
VIEW MCView
INVARIANTS Consistent ScopesMatch
PROPERTY MCPopRestores
CHECK_DEADLOCK FALSE
