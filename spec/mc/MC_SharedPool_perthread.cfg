SPECIFICATION PSpec
CONSTANTS
  Threads = {"t1", "t2"}
  Objects = {1, 2, 3}
  Discipline = "perthread"
  MaxOps = 4
INVARIANTS Exclusive NotFreeAndOwned
CHECK_DEADLOCK FALSE
