---- MODULE MC_IntRound ----
EXTENDS IntRound
VARIABLE done
MCLo == -24
MCHi == 24
MCDivisors == {-7, -5, -4, -3, -2, -1, 1, 2, 3, 4, 5, 7}
Init == done = FALSE
Next == done' = TRUE
Spec == Init /\ [][Next]_done
====
