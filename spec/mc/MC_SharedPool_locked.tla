---- MODULE MC_SharedPool_locked ----
EXTENDS SharedPool
====
