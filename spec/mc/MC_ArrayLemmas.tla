-------------------------- MODULE MC_ArrayLemmas --------------------------
EXTENDS ArrayLemmas
CONSTANTS c1, c2, c3, s1, m1, m2
MCConds == {c1, c2, c3}
MCStrong == {s1}
MCLemmas == {m1, m2}
MCLC == (m1 :> {c1, c2}) @@ (m2 :> {c2, c3})
MCNeed == (m1 :> {}) @@ (m2 :> {s1})
=============================================================================
