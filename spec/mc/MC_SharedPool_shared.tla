---- MODULE MC_SharedPool_shared ----
EXTENDS SharedPool
====
