----------------------------- MODULE MC_CDCLT -----------------------------
(***************************************************************************)
(* An abstract CDCL(T) engine over the clause database of CDCLT.tla, with  *)
(* assumptions (frame literals), decisions, unit propagation, theory       *)
(* conflicts, conflict analysis by resolution with reasons, learning,      *)
(* backjumping, restarts, final-conflict analysis over assumptions.        *)
(* The theory is given by TIncons: the minimal inconsistent literal sets.  *)
(* Exhaustive for 3 variables + 1 assumption variable.                     *)
(*   LearntImplied   every clause in db follows from inputs and T-lemmas   *)
(*   RUPHolds        every learnt clause was RUP when it was learnt        *)
(*   UnsatSound      "unsat" only if inputs + theory + assumptions unsat   *)
(*   SatComplete     "sat" only with a total, db-satisfying, T-consistent  *)
(*                   assignment                                            *)
(***************************************************************************)
EXTENDS CDCLT

CONSTANTS Vars, InputPool, TIncons, Assumps, MaxLearn

VARIABLES inputs, trail, status, learnt, rupOK
\* trail: sequence of [l, dec: is a decision/assumption, reason: clause or {}]
mcvars == <<db, inputs, trail, status, learnt, rupOK>>
MCVars == {1, 2, 3, 4}
MCAssumps == {-4}        \* frame literal 4 is assumed false (the frame is enabled)
MCPool == { {1, 2}, {-1, 3}, {-2, -3}, {-1, -2, 4}, {2, -3, 4}, {3, 4} }
MCTIncons == { {1, -3}, {2, 3} }

Lits == Vars \cup { -v : v \in Vars }
Asg == { trail[i].l : i \in DOMAIN trail }
TLemmas == { { -x : x \in S } : S \in TIncons }
AllAsg == Assignments(Vars)
TCons(a) == \A S \in TIncons : ~(S \subseteq a)
\* models of inputs that are theory consistent and satisfy the assumptions
Models == { a \in AllAsg : (\A c \in inputs : Sat1(c, a)) /\ TCons(a) /\ Assumps \subseteq a }

MCInit == /\ inputs \in SUBSET InputPool /\ db = inputs /\ trail = <<>> /\ status = "run"
          /\ learnt = 0 /\ rupOK = TRUE
Undef(l) == l \notin Asg /\ -l \notin Asg
Push(l, dec, r) == trail' = Append(trail, [l |-> l, dec |-> dec, reason |-> r])

Assume == /\ status = "run" /\ \E l \in Assumps : Undef(l) /\ Push(l, TRUE, {})
          /\ UNCHANGED <<db, inputs, status, learnt, rupOK>>
\* an assumption that is already false: final conflict, the answer is unsat under these assumptions
AssumptionFalse == /\ status = "run" /\ \E l \in Assumps : -l \in Asg
                   /\ status' = "unsat" /\ UNCHANGED <<db, inputs, trail, learnt, rupOK>>
Decide == /\ status = "run" /\ \A l \in Assumps : l \in Asg
          /\ ~(\E c \in db : Falsified(c, Asg))
          /\ \E l \in Lits : Undef(l) /\ Push(l, TRUE, {})
          /\ UNCHANGED <<db, inputs, status, learnt, rupOK>>
Propagate == /\ status = "run"
             /\ \E c \in db : /\ Cardinality(Open(c, Asg)) = 1 /\ \A x \in c : x \notin Asg
                              /\ LET l == CHOOSE x \in Open(c, Asg) : TRUE IN Push(l, FALSE, c)
             /\ UNCHANGED <<db, inputs, status, learnt, rupOK>>
\* the theory reports an inconsistent subset of the trail: its negation is added as a lemma
TheoryConflict == /\ status = "run" /\ \E S \in TIncons : S \subseteq Asg /\ AddTheory({ -x : x \in S })
                  /\ UNCHANGED <<inputs, trail, status, learnt, rupOK>>
\* conflict analysis: resolve the falsified clause with reasons of propagated literals, in any order,
\* any number of times; learn the result; backjump to before the last decision
RECURSIVE Resolvents(_, _)
Resolvents(c, n) ==
  IF n = 0 THEN {c}
  ELSE {c} \cup UNION { Resolvents((c \ {-trail[i].l}) \cup (trail[i].reason \ {trail[i].l}), n - 1) :
                          i \in { j \in DOMAIN trail : ~trail[j].dec /\ -trail[j].l \in c } }
LastDec == IF \E i \in DOMAIN trail : trail[i].dec
           THEN CHOOSE i \in DOMAIN trail : trail[i].dec /\ \A j \in DOMAIN trail : trail[j].dec => j <= i ELSE 0
Learn1 == /\ status = "run" /\ learnt < MaxLearn /\ LastDec > 0
          /\ \E c \in db : /\ Falsified(c, Asg)
                           /\ \E lc \in Resolvents(c, 2) :
                                /\ rupOK' = (rupOK /\ RUP(db, lc))
                                /\ Learn(lc)
          /\ trail' = SubSeq(trail, 1, LastDec - 1) /\ learnt' = learnt + 1
          /\ UNCHANGED <<inputs, status>>
ReturnUnsat == /\ status = "run" /\ \E c \in db : Falsified(c, Asg)
               /\ \A i \in DOMAIN trail : trail[i].dec => trail[i].l \in Assumps    \* only assumptions were decided
               /\ status' = "unsat" /\ UNCHANGED <<db, inputs, trail, learnt, rupOK>>
ReturnSat == /\ status = "run" /\ \A v \in Vars : ~Undef(v) /\ Assumps \subseteq Asg
             /\ ~(\E c \in db : Falsified(c, Asg)) /\ TCons(Asg)
             /\ status' = "sat" /\ UNCHANGED <<db, inputs, trail, learnt, rupOK>>
Restart == /\ status = "run" /\ trail # <<>> /\ learnt < MaxLearn /\ trail' = <<>>
           /\ UNCHANGED <<db, inputs, status, learnt, rupOK>>

MCNext == Assume \/ AssumptionFalse \/ Decide \/ Propagate \/ TheoryConflict \/ Learn1 \/ ReturnUnsat \/ ReturnSat
MCSpec == MCInit /\ [][MCNext]_mcvars

LearntImplied == \A c \in db : Implied(inputs \cup TLemmas, c, Vars)
RUPHolds == rupOK
UnsatSound == status = "unsat" => Models = {}
SatComplete == status = "sat" => Asg \in Models
TrailConsistent == \A l \in Asg : -l \notin Asg
=============================================================================
