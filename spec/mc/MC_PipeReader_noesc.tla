---- MODULE MC_PipeReader_noesc ----
EXTENDS PipeReader
MCAlphabet == {"(", ")", ";", "\"", "|", "\\", "nl", "a"}
====
