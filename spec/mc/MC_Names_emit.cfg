SPECIFICATION MCSpec
CONSTANTS
  NameSet = {"a", "b", "c"}
  TermSet = {1, 2}
  Global = FALSE
  Depth = 5
  MaxScopes = 3
CONSTRAINT Bound
INVARIANTS Consistent ScopesMatch Emit
CHECK_DEADLOCK FALSE
