SPECIFICATION Spec
CONSTANTS
  Alphabet <- MCAlphabet
  MaxLen = 5
  Chunks = {1, 2, 4}
  Escapes = FALSE
INVARIANT FramesAgree
CHECK_DEADLOCK FALSE
