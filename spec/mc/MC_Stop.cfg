SPECIFICATION SFair
CONSTANTS
  Truth = "unsat"
  MaxSteps = 4
  Discipline = "atomic"
INVARIANTS StopSafe ResultOnlyWhenDone
PROPERTY Terminates
CHECK_DEADLOCK FALSE
