SPECIFICATION Spec
CONSTANTS
  c1 = c1
  c2 = c2
  c3 = c3
  s1 = s1
  m1 = m1
  m2 = m2
  Conds <- MCConds
  Strong <- MCStrong
  Lemmas <- MCLemmas
  LC <- MCLC
  Need <- MCNeed
  MaxDepth = 5
  PopMode = "recompute"
INVARIANTS TypeOK CacheExact VerdictFromLiterals ConflictSound
CHECK_DEADLOCK FALSE
