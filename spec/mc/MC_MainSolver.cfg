SPECIFICATION Spec
CONSTANTS
  AllModels = {1, 2}
  Formulas <- MCFormulas
  Mods <- MCMods
  SoundConflictFrame = TRUE
  MaxFrames = 3
  MaxPerFrame = 2
  MaxIds = 4
CONSTRAINT Bound
VIEW MCView
INVARIANTS TypeOK IdsIncrease UnsatFlagSound UnsatUpClosed DbCovers OkMeaning OkAtSolve AnswerCorrect
CHECK_DEADLOCK FALSE
