SPECIFICATION TSSpec
CONSTANTS
  Ops = {"and", "f", "minus"}
  Commutative = {"and"}
  MaxTerms = 5
INVARIANTS Injective SubtermsFirst CommutativeShared
CHECK_DEADLOCK FALSE
