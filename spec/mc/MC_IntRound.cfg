SPECIFICATION Spec
CONSTANTS
  Lo <- MCLo
  Hi <- MCHi
  Divisors <- MCDivisors
INVARIANT All
