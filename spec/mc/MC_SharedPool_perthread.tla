---- MODULE MC_SharedPool_perthread ----
EXTENDS SharedPool
====
