SPECIFICATION TSpec
CONSTANTS
  Atoms = {1, 2, 3}
  MaxDepth = 3
  Depth = 4
CONSTRAINT Bound
INVARIANTS NoDuplicateAtoms BadMeansNotSat Emit
CHECK_DEADLOCK FALSE
