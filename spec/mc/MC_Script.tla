----------------------------- MODULE MC_Script -----------------------------
(***************************************************************************)
(* Exhaustive configuration of the command machine Script.tla over a tiny  *)
(* concrete term table (propositional formulas over p and q), so that the  *)
(* same kernel that judges real executions also decides this model.        *)
(* The environment issues commands; the solver answers with any response   *)
(* the guards allow.  Checked: the machine is well-formed (TypeOK,         *)
(* NamesScoped, FidsWellFormed), a response is always possible             *)
(* (AnswerExists), definitive answers are right (AnswerRight), names of    *)
(* popped levels are gone (NoPoppedNames), cores and interpolation groups  *)
(* can only mention current names.                                         *)
(***************************************************************************)
EXTENDS Script

CONSTANTS MaxDepth, MaxAsserts, MaxCmds

VARIABLE ncmd

Rec(k, op, nm, s, a, n) == [k |-> k, op |-> op, nm |-> nm, s |-> s, a |-> a, n |-> n, d |-> 1, bn |-> <<>>]
MCTable == <<
  Rec("v", "", "p", "Bool", <<>>, 0),           \* 1  p
  Rec("v", "", "q", "Bool", <<>>, 0),           \* 2  q
  Rec("a", "not", "", "Bool", <<1>>, 0),        \* 3  (not p)
  Rec("a", "or", "", "Bool", <<1, 2>>, 0),      \* 4  (or p q)
  Rec("a", "not", "", "Bool", <<2>>, 0),        \* 5  (not q)
  Rec("b", "", "", "Bool", <<>>, 1),            \* 6  true
  Rec("b", "", "", "Bool", <<>>, 0) >>          \* 7  false
Formulas == {1, 3, 4, 5}
NameSet == {"n1", "n2"}
MCDom == << [nm |-> "p", s |-> "Bool", vals |-> <<6, 7>>], [nm |-> "q", s |-> "Bool", vals |-> <<6, 7>>] >>

mvars == <<svars, ncmd>>
NAsserted == Len(Entries)

MCInit == ScriptInit(MCTable, MCDom) /\ ncmd = 0
Tick == ncmd < MaxCmds /\ ncmd' = ncmd + 1

DoAssert == \E t \in Formulas, nm \in NameSet \cup {""} :
   /\ Tick /\ NAsserted < MaxAsserts
   /\ IF NamesFresh(nm, <<>>) THEN AssertEff(t, nm, <<>>) ELSE Reject       \* a duplicate name is rejected
DoPush == Tick /\ Depth < MaxDepth /\ PushEff(1)
DoPop == \E n \in 1..2 : Tick /\ (IF PopLegal(n) THEN PopEff(n) ELSE Reject)
DoCheck == \E r \in {"sat", "unsat", "unknown"} :
   /\ Tick /\ AnswerOK(r, Verdict(<<>>)) /\ CheckSatEff(r)
DoSetGlobal == Tick /\ stack = << <<>> >> /\ names = <<>> /\ SetOptionEff(":global-declarations", "true")

MCNext == DoAssert \/ DoPush \/ DoPop \/ DoCheck \/ DoSetGlobal
MCSpec == MCInit /\ [][MCNext]_mvars

\* ---- properties
FidsWellFormed == /\ Len(fids) = Len(stack) /\ fids[1] = 0
                  /\ \A a, b \in DOMAIN fids : a < b => fids[a] < fids[b]
                  /\ \A a \in DOMAIN fids : fids[a] < nextFid
AnswerExists == \E r \in {"sat", "unsat", "unknown"} : AnswerOK(r, Verdict(<<>>))
\* the kernel is exact here (propositional, grid complete), so a definitive mode is the truth
AnswerRight == (mode \in {"sat", "unsat"}) => mode = Verdict(<<>>)
NoPoppedNames == Global \/ \A n \in DOMAIN names : names[n].lvl <= Depth
\* any name list drawn from the current names gives a legal core candidate; popped names never do
CoreCandidatesCurrent == \A n \in NameSet : (<<n>> \in {<<m>> : m \in TopNames}) <=> CoreCurrent(<<n>>)
KernelTotal == Verdict(<<>>) \in {"sat", "unsat"}
=============================================================================
