SPECIFICATION MCSpec
CONSTANTS
  MaxDepth = 2
  MaxAsserts = 3
  MaxCmds = 7
INVARIANTS TypeOK NamesScoped FidsWellFormed AnswerExists AnswerRight NoPoppedNames CoreCandidatesCurrent KernelTotal
CHECK_DEADLOCK FALSE
