---------------------------- MODULE MC_MainSolver ----------------------------
EXTENDS MainSolver, TLC
CONSTANTS MaxFrames, MaxPerFrame, MaxIds
MCMods(f) == f                        \* a formula is the set of worlds that satisfy it
MCFormulas == SUBSET AllModels
Bound ==
  /\ Len(frames) <= MaxFrames
  /\ \A i \in 1 .. Len(frames) : Len(frames[i].fs) <= MaxPerFrame
  /\ nextId <= MaxIds
\* entries of db guarded by ids of popped frames never matter again (ids are not reused, Live ignores
\* them), and for a live id only the intersection of its roots matters
MCView == <<frames, nextId, fns, ok, cf, status, pc, st, ans,
            [i \in IdsUpTo(frames, Level) |-> {w \in AllModels : \A e \in db : e.g = i => w \in e.m}]>>
=============================================================================
