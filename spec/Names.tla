------------------------------- MODULE Names -------------------------------
(***************************************************************************)
(* The scoped name table of src/common/TermNames.h (:named annotations).   *)
(*                                                                         *)
(* n2t     nameToTerm                                                      *)
(* t2n     termToNames: for every named term the list of its names, in     *)
(*         the order they were given (the first one is what               *)
(*         get-unsat-core prints)                                          *)
(* scopes  scopedNamesAndTerms: one sequence of <<name, term>> per push    *)
(*         level (the base level included)                                 *)
(* saved   history variable: the table at each pushScope                   *)
(*                                                                         *)
(* Actions: TryInsert (fails iff the name is taken; a term may carry       *)
(* several names), PushScope, PopScope (erases exactly the names of the    *)
(* popped level).  With Global (":global-declarations") scopes are no-ops. *)
(***************************************************************************)
EXTENDS Naturals, Sequences, FiniteSets

CONSTANTS NameSet, TermSet, Global

VARIABLES n2t, t2n, scopes, saved, res

nvars == <<n2t, t2n, scopes, saved, res>>

Remove(s, x) == LET F[i \in 0 .. Len(s)] == IF i = 0 THEN << >> ELSE IF s[i] = x THEN F[i - 1] ELSE Append(F[i - 1], s[i])
                IN F[Len(s)]
Restrict(f, D) == [x \in D |-> f[x]]

NInit == /\ n2t = << >> /\ t2n = << >> /\ scopes = << << >> >> /\ saved = << >> /\ res = "none"

\* erase one name (TermNames::eraseTermName)
EraseIn(tab, n) ==
  IF n \notin DOMAIN tab.n2t THEN tab
  ELSE LET t  == tab.n2t[n]
           ns == Remove(tab.t2n[t], n)
       IN [n2t |-> Restrict(tab.n2t, DOMAIN tab.n2t \ {n}),
           t2n |-> IF ns = << >> THEN Restrict(tab.t2n, DOMAIN tab.t2n \ {t})
                   ELSE [tab.t2n EXCEPT ![t] = ns]]
EraseAll(tab, ps) == LET F[i \in 0 .. Len(ps)] == IF i = 0 THEN tab ELSE EraseIn(F[i - 1], ps[i][1]) IN F[Len(ps)]

TryInsert(n, t) ==
  IF n \in DOMAIN n2t
  THEN /\ res' = "false" /\ UNCHANGED <<n2t, t2n, scopes, saved>>
  ELSE /\ res' = "true"
       /\ n2t' = [x \in DOMAIN n2t \cup {n} |-> IF x = n THEN t ELSE n2t[x]]
       /\ t2n' = [x \in DOMAIN t2n \cup {t} |-> IF x = t THEN (IF t \in DOMAIN t2n THEN Append(t2n[t], n) ELSE <<n>>) ELSE t2n[x]]
       /\ scopes' = [scopes EXCEPT ![Len(scopes)] = Append(@, <<n, t>>)]
       /\ UNCHANGED saved
PushScope ==
  /\ res' = "none"
  /\ IF Global THEN UNCHANGED <<n2t, t2n, scopes, saved>>
     ELSE /\ scopes' = Append(scopes, << >>)
          /\ saved' = Append(saved, [n2t |-> n2t, t2n |-> t2n])
          /\ UNCHANGED <<n2t, t2n>>
PopLegal == Global \/ Len(scopes) > 1
PopScope ==
  /\ PopLegal /\ res' = "none"
  /\ IF Global THEN UNCHANGED <<n2t, t2n, scopes, saved>>
     ELSE LET tab == EraseAll([n2t |-> n2t, t2n |-> t2n], scopes[Len(scopes)])
          IN /\ n2t' = tab.n2t /\ t2n' = tab.t2n
             /\ scopes' = SubSeq(scopes, 1, Len(scopes) - 1)
             /\ saved' = SubSeq(saved, 1, Len(saved) - 1)

NNext == \/ \E n \in NameSet, t \in TermSet : TryInsert(n, t)
         \/ PushScope \/ PopScope
NSpec == NInit /\ [][NNext]_nvars

(* ---------------- properties ---------------- *)
SetOfSeq(s) == { s[i] : i \in DOMAIN s }
\* the two maps describe the same relation; no term keeps an empty list; no name twice
Consistent ==
  /\ \A t \in DOMAIN t2n : t2n[t] # << >> /\ SetOfSeq(t2n[t]) = { n \in DOMAIN n2t : n2t[n] = t }
                           /\ Cardinality(SetOfSeq(t2n[t])) = Len(t2n[t])
  /\ \A n \in DOMAIN n2t : n2t[n] \in DOMAIN t2n
\* the scope stack lists exactly the live names
ScopesMatch ==
  UNION { SetOfSeq(scopes[i]) : i \in DOMAIN scopes } = { <<n, n2t[n]>> : n \in DOMAIN n2t }
\* popping a level restores the table of the matching push: names of outer levels survive (also those that
\* share their term with a popped name), popped names are free again
PopRestores ==
  [][(~Global /\ Len(scopes') < Len(scopes)) => (n2t' = saved[Len(saved)].n2t /\ t2n' = saved[Len(saved)].t2n)]_nvars
=============================================================================
