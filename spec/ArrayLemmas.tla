---------------------------- MODULE ArrayLemmas ----------------------------
(***************************************************************************)
(* The lemma cache of the array solver (ArraySolver.cc).                   *)
(*                                                                         *)
(* check() builds the weak-equivalence graph for the current context of    *)
(* positively asserted equalities and from it the read-over-weak-          *)
(* equivalence lemmas; for every lemma it keeps the set of conditions      *)
(* (index equalities and the equality of the two reads) that are not       *)
(* falsified yet (LemmaConditions::undecidedEqualities).  assertLit of a   *)
(* disequality removes the condition from every lemma and reports an       *)
(* inconsistency when a lemma has none left; assertLit of an equality and  *)
(* every backtrack throw the cache away (clear()).                         *)
(*                                                                         *)
(* The graph is abstracted: a lemma m exists exactly when the equalities   *)
(* Need[m] are asserted, and its conditions are LC[m].  What the module    *)
(* states is the part of C22 that concerns the cache: whenever the cache   *)
(* is valid it equals what a rebuild from the currently asserted literals  *)
(* gives, so the verdict is a function of the literal set.                 *)
(*                                                                         *)
(* PopMode selects the discipline of popBacktrackPoint:                    *)
(*   "clear"    what the code does: the cache is thrown away               *)
(*   "keep"     the cache survives when only disequalities are retracted   *)
(*   "logged"   as "keep", and conditions removed by assertLit are put     *)
(*              back from an undo log (conditions that were already        *)
(*              falsified when the cache was built have no log entry)      *)
(*   "recompute" as "keep", and every retracted disequality is put back    *)
(*              into every lemma that has it as a condition                *)
(* "clear" and "recompute" satisfy CacheExact, "keep" and "logged" do not. *)
(***************************************************************************)
EXTENDS Integers, Sequences, FiniteSets, TLC

CONSTANTS Conds,      \* equalities that occur as conditions of lemmas
          Strong,     \* equalities that only change the context
          Lemmas, LC, Need, MaxDepth, PopMode

VARIABLES stack,      \* asserted literals [t, s], one backtrack point each
          valid,      \* the cache belongs to the current context
          und,        \* lemma -> undecided conditions (the cache)
          log         \* undo log of "logged": <<stack height, lemma, condition>>

vars == <<stack, valid, und, log>>
Eqs == Conds \cup Strong
Lits(s) == { s[i] : i \in DOMAIN s }
Falsified(s, c) == [t |-> c, s |-> FALSE] \in Lits(s)
Ctx(s) == { e \in Eqs : [t |-> e, s |-> TRUE] \in Lits(s) }
Active(s) == { m \in Lemmas : Need[m] \subseteq Ctx(s) /\ LC[m] \cap Ctx(s) = {} }
\* what buildWeakEq / collectLemmaConditions compute from the asserted literals alone
Fresh(s) == [m \in Active(s) |-> { c \in LC[m] : ~Falsified(s, c) }]
Empty == [m \in {} |-> {}]

Init == stack = <<>> /\ valid = FALSE /\ und = Empty /\ log = {}

AssertLit(t, s) ==
  /\ Len(stack) < MaxDepth /\ \A i \in DOMAIN stack : stack[i].t # t
  /\ stack' = Append(stack, [t |-> t, s |-> s])
  /\ IF s THEN valid' = FALSE /\ und' = Empty /\ log' = {}                     \* clear()
     ELSE /\ valid' = valid
          /\ und' = [m \in DOMAIN und |-> und[m] \ {t}]
          /\ log' = log \cup { <<Len(stack) + 1, m, t>> : m \in { x \in DOMAIN und : t \in und[x] } }

Pop(n) ==
  /\ n \in 1..Len(stack)
  /\ LET rest == SubSeq(stack, 1, Len(stack) - n)
         gone == { stack[i] : i \in (Len(stack) - n + 1)..Len(stack) }
         onlyNeg == \A l \in gone : ~l.s IN
     /\ stack' = rest
     /\ IF PopMode = "clear" \/ ~onlyNeg THEN valid' = FALSE /\ und' = Empty /\ log' = {}
        ELSE /\ valid' = valid
             /\ log' = { e \in log : e[1] <= Len(rest) }
             /\ und' = CASE PopMode = "keep" -> und
                         [] PopMode = "logged" ->
                              [m \in DOMAIN und |-> und[m] \cup { e[3] : e \in { x \in log : x[1] > Len(rest) /\ x[2] = m } }]
                         [] OTHER ->
                              [m \in DOMAIN und |-> und[m] \cup (LC[m] \cap { l.t : l \in gone })]

Check ==
  /\ UNCHANGED <<stack, log>>
  /\ IF valid THEN UNCHANGED <<valid, und>> ELSE valid' = TRUE /\ und' = Fresh(stack)

Next == \/ \E t \in Eqs, s \in BOOLEAN : AssertLit(t, s)
        \/ \E n \in 1..MaxDepth : Pop(n)
        \/ Check
Spec == Init /\ [][Next]_vars

\* the verdict the solver reads from its cache, and the one a rebuild would give
Conflict == \E m \in DOMAIN und : und[m] = {}
RefConflict == \E m \in Active(stack) : \A c \in LC[m] : Falsified(stack, c)

TypeOK == /\ valid \in BOOLEAN /\ DOMAIN und \subseteq Lemmas /\ \A m \in DOMAIN und : und[m] \subseteq LC[m]
CacheExact == valid => und = Fresh(stack)
VerdictFromLiterals == valid => (Conflict <=> RefConflict)
\* a conflict is only ever read from a lemma all of whose conditions are falsified now (soundness side alone)
ConflictSound == (valid /\ Conflict) => RefConflict
=============================================================================
