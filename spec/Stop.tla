-------------------------------- MODULE Stop --------------------------------
(***************************************************************************)
(* Asynchronous stop (MainSolver::notifyStop, notifyGlobalStop) against    *)
(* the search loop of CoreSMTSolver::solve_ / search.  The engine reads    *)
(* the two flags only at its poll points (CoreSMTSolver::okContinue); the  *)
(* environment may set either flag at any moment.                          *)
(*                                                                         *)
(* phases: "pre" (preprocessing, no poll), "search" (loop: poll, then one  *)
(* step that may close the search), "post" (model construction / final     *)
(* conflict analysis, no poll), "done".                                    *)
(* Truth is the correct answer of the instance.  A run that saw a stop     *)
(* flag at a poll point returns unknown; a run that closed the search      *)
(* returns Truth.  StopSafe: result is unknown or Truth.                   *)
(* Discipline = "atomic" | "plain": with plain (non-atomic) flags the      *)
(* write may never become visible to the engine: safety still holds, only  *)
(* responsiveness (EventuallyStops) is lost - and C++ calls it a data race.*)
(***************************************************************************)
EXTENDS Integers, TLC

CONSTANTS Truth, MaxSteps, Discipline

VARIABLES phase, steps, localReq, globalReq, visible, result

vars == <<phase, steps, localReq, globalReq, visible, result>>

SInit == /\ phase = "pre" /\ steps = 0 /\ localReq = FALSE /\ globalReq = FALSE
         /\ visible = FALSE /\ result = "none"

\* environment
StopLocal  == /\ ~localReq /\ localReq' = TRUE
              /\ visible' = (visible \/ Discipline = "atomic")
              /\ UNCHANGED <<phase, steps, globalReq, result>>
StopGlobal == /\ ~globalReq /\ globalReq' = TRUE
              /\ visible' = (visible \/ Discipline = "atomic")
              /\ UNCHANGED <<phase, steps, localReq, result>>
\* with plain flags the write becomes visible at some later, unspecified moment (or never)
Publish    == /\ (localReq \/ globalReq) /\ ~visible /\ visible' = TRUE
              /\ UNCHANGED <<phase, steps, localReq, globalReq, result>>

\* engine
Preprocess == /\ phase = "pre" /\ phase' = "search" /\ UNCHANGED <<steps, localReq, globalReq, visible, result>>
PollStopped == /\ phase = "search" /\ visible
               /\ phase' = "done" /\ result' = "unknown" /\ UNCHANGED <<steps, localReq, globalReq, visible>>
Step == /\ phase = "search" /\ ~visible /\ steps < MaxSteps
        /\ steps' = steps + 1 /\ UNCHANGED <<phase, localReq, globalReq, visible, result>>
Close == /\ phase = "search" /\ ~visible        \* the search closes: conflict at level 0 or full model
         /\ phase' = "post" /\ UNCHANGED <<steps, localReq, globalReq, visible, result>>
Finish == /\ phase = "post" /\ phase' = "done" /\ result' = Truth
          /\ UNCHANGED <<steps, localReq, globalReq, visible>>

SNext == StopLocal \/ StopGlobal \/ Publish \/ Preprocess \/ PollStopped \/ Step \/ Close \/ Finish
SSpec == SInit /\ [][SNext]_vars
SFair == SSpec /\ WF_vars(Preprocess \/ PollStopped \/ Step \/ Close \/ Finish) /\ WF_vars(Publish)

StopSafe == phase = "done" => result \in {"unknown", Truth}
ResultOnlyWhenDone == (result # "none") <=> (phase = "done")
Terminates == <>(phase = "done")
=============================================================================
