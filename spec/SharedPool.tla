----------------------------- MODULE SharedPool -----------------------------
(***************************************************************************)
(* The mpq pool of FastRational (mpqPool::alloc / release) used by solver  *)
(* instances in several threads.  alloc is "read the top of the free       *)
(* list, then pop it" and release is "push": two separate memory accesses  *)
(* that are not atomic.  Discipline:                                       *)
(*   "shared"    one process-wide pool, no lock (the code before the fix)  *)
(*   "locked"    one pool, alloc and release are critical sections         *)
(*   "perthread" one pool per thread (thread_local, the repaired code)     *)
(* Exclusive: an object is never handed to two threads at once.            *)
(***************************************************************************)
EXTENDS Integers, Sequences, FiniteSets, TLC

CONSTANTS Threads, Objects, Discipline, MaxOps

VARIABLES free,      \* pool id -> sequence of free objects (top = last)
          owns,      \* thread -> set of objects it holds
          pc,        \* thread -> "idle" | "popping"
          seen,      \* thread -> the object read as top, while popping
          ops,       \* thread -> number of operations done
          lock       \* holder of the lock, or "none"

vars == <<free, owns, pc, seen, ops, lock>>
PoolOf(t) == IF Discipline = "perthread" THEN t ELSE "shared"
Pools == IF Discipline = "perthread" THEN Threads ELSE {"shared"}
PInit ==
  /\ free = [p \in Pools |-> <<>>]
  /\ owns = [t \in Threads |-> {}] /\ pc = [t \in Threads |-> "idle"]
  /\ seen = [t \in Threads |-> 0] /\ ops = [t \in Threads |-> 0] /\ lock = "none"

CanEnter(t) == Discipline # "locked" \/ lock = "none" \/ lock = t
\* a fresh object is created when the free list is empty (store.emplace())
Fresh == CHOOSE o \in Objects : \A t \in Threads : o \notin owns[t] /\ \A p \in Pools : \A i \in DOMAIN free[p] : free[p][i] # o
HasFresh == \E o \in Objects : \A t \in Threads : o \notin owns[t] /\ \A p \in Pools : \A i \in DOMAIN free[p] : free[p][i] # o

AllocRead(t) ==      \* r = pool.top()   (or create a new object when the pool is empty)
  /\ pc[t] = "idle" /\ ops[t] < MaxOps /\ CanEnter(t)
  /\ LET p == PoolOf(t) IN
     IF free[p] # <<>>
     THEN /\ seen' = [seen EXCEPT ![t] = free[p][Len(free[p])]]
          /\ pc' = [pc EXCEPT ![t] = "popping"]
          /\ lock' = IF Discipline = "locked" THEN t ELSE lock
          /\ UNCHANGED <<free, owns, ops>>
     ELSE /\ HasFresh
          /\ owns' = [owns EXCEPT ![t] = @ \cup {Fresh}]
          /\ ops' = [ops EXCEPT ![t] = @ + 1]
          /\ UNCHANGED <<free, pc, seen, lock>>
AllocPop(t) ==       \* pool.pop(); return r
  /\ pc[t] = "popping"
  /\ LET p == PoolOf(t) IN
     /\ free' = [free EXCEPT ![p] = IF @ # <<>> THEN SubSeq(@, 1, Len(@) - 1) ELSE @]
     /\ owns' = [owns EXCEPT ![t] = @ \cup {seen[t]}]
  /\ pc' = [pc EXCEPT ![t] = "idle"] /\ ops' = [ops EXCEPT ![t] = @ + 1]
  /\ lock' = IF lock = t THEN "none" ELSE lock
  /\ UNCHANGED seen
Release(t) ==        \* pool.push(ptr)
  /\ pc[t] = "idle" /\ ops[t] < MaxOps /\ owns[t] # {} /\ CanEnter(t) /\ (Discipline # "locked" \/ lock = "none")
  /\ LET o == CHOOSE x \in owns[t] : TRUE
         p == PoolOf(t) IN
     /\ free' = [free EXCEPT ![p] = Append(@, o)]
     /\ owns' = [owns EXCEPT ![t] = @ \ {o}]
  /\ ops' = [ops EXCEPT ![t] = @ + 1]
  /\ UNCHANGED <<pc, seen, lock>>

PNext == \E t \in Threads : AllocRead(t) \/ AllocPop(t) \/ Release(t)
PSpec == PInit /\ [][PNext]_vars

Exclusive == \A s, t \in Threads : s # t => owns[s] \cap owns[t] = {}
NotFreeAndOwned == \A t \in Threads : \A p \in Pools : \A i \in DOMAIN free[p] : free[p][i] \notin owns[t]
=============================================================================
