------------------------------- MODULE CDCLT -------------------------------
(***************************************************************************)
(* The clause-level view of the CDCL(T) engine (CoreSMTSolver,             *)
(* SimpSMTSolver, LookaheadSMTSolver together with THandler): a growing    *)
(* database of clauses over integer literals (v+1, negative = negated).    *)
(*                                                                         *)
(*   AddInput(c)    a clause of the CNF of an assertion (with its frame    *)
(*                  literal)                                               *)
(*   AddTheory(c)   a clause contributed by a theory solver (conflict,     *)
(*                  explanation of a propagation, split, root deduction)   *)
(*   Learn(c)       a clause the engine learns or derives (conflict        *)
(*                  analysis, minimisation, variable elimination,          *)
(*                  strengthening, units from split clauses)               *)
(*                                                                         *)
(* Guards: a theory clause must be valid in the theory (C11: its negation  *)
(* has no model); a learnt/derived clause must follow from the database by *)
(* reverse unit propagation (C12).  Deletions are not modelled: everything *)
(* in db is a consequence of inputs and theory-valid clauses, so keeping   *)
(* deleted clauses is sound for the RUP check.                             *)
(***************************************************************************)
EXTENDS Integers, FiniteSets, Sequences, TLC

VARIABLE db          \* set of clauses; a clause is a set of non-zero integers

\* ---- reverse unit propagation -------------------------------------------
Falsified(c, asg) == \A x \in c : -x \in asg
Open(c, asg) == { x \in c : -x \notin asg }
RECURSIVE UP(_, _)
UP(d, asg) ==
  IF \E c \in d : Falsified(c, asg) THEN "conflict"
  ELSE LET units == { c \in d : (\A x \in c : x \notin asg) /\ Cardinality(Open(c, asg)) = 1 }
       IN IF units = {} THEN "open"
          ELSE UP(d, asg \cup { CHOOSE x \in Open(c, asg) : TRUE : c \in units })
Tautology(c) == \E x \in c : -x \in c
RUP(d, c) == Tautology(c) \/ UP(d, { -x : x \in c }) = "conflict"

\* ---- actions --------------------------------------------------------------
CInit == db = {}
AddInput(c)  == db' = db \cup {c}
AddTheory(c) == db' = db \cup {c}
LearnGuard(c) == RUP(db, c)
Learn(c)     == db' = db \cup {c}

\* ---- design-level statement (checked in MC_CDCLT with a concrete theory) ---
\* Implied(d, c): every total assignment over Vars satisfying d satisfies c
Sat1(c, a) == \E x \in c : x \in a
Assignments(Vars) == { { IF b[v] THEN v ELSE -v : v \in Vars } : b \in [Vars -> BOOLEAN] }
Implied(d, c, Vars) == \A a \in Assignments(Vars) : (\A e \in d : Sat1(e, a)) => Sat1(c, a)
=============================================================================
