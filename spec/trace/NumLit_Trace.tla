---------------------------- MODULE NumLit_Trace ----------------------------
(***************************************************************************)
(* Trace specification for numeric literals (C16).  Each event is one      *)
(* literal given to the solver (in a script, or through ArithLogic::mkConst)*)
(* with what came back: accepted or rejected, and the value the solver     *)
(* prints for it (get-value / the printed constant), as BigInt pair.       *)
(*   accepted  => the literal is a literal (NumLit!ExtendedLiteral; for    *)
(*                script input without sign: StrictLiteral or fraction)    *)
(*                and the printed value equals NumLit!ValueOf              *)
(*   rejected  => it is not a well-formed literal                          *)
(***************************************************************************)
EXTENDS NumLit, TLC, Json, IOUtils

Tr == ndJsonDeserialize(IOEnv.TRACE)
VARIABLES l, viol
Ev == Tr[l]
V(p, why) == [p |-> p, l |-> l, why |-> why, lit |-> Ev.text, kind |-> Ev.kind]
Note(vs) == /\ \A v \in vs : PrintT("@@VIOL " \o ToJson(v))
            /\ viol' = viol + Cardinality(vs) /\ TLCSet(2, l)
If(c, v) == IF c THEN {v} ELSE {}
B(x) == [neg |-> x.neg, m |-> x.m]

Init == l = 1 /\ viol = 0 /\ TLCSet(2, 0)
\* script input: SMT-LIB numerals and decimals; the signed and fraction forms are an extension of
\* OpenSMT's lexer (accepting them is fine, their value must be right, rejecting them is fine too)
WellFormedLit == ExtendedLiteral(Ev.chars)
MustAccept == Ev.mustaccept /\ StrictLiteral(Ev.chars)
TrLit ==
  /\ Ev.e = "lit" /\ l' = l + 1
  /\ Note( IF Ev.accepted
           THEN If(~WellFormedLit /\ Ev.strict, V("C16", [m |-> "ill-formed literal accepted"])) \cup
                If(WellFormedLit /\ Ev.hasval /\
                   ~REq(ValueOf(Ev.chars), [n |-> B(Ev.val.n), d |-> B(Ev.val.d)]),
                   V("C16", [m |-> "value differs from the literal"])) \cup
                If(WellFormedLit /\ Ev.unsat, V("C16", [m |-> "v = literal is unsatisfiable: the literal was not read as one value"])) \cup
                If(Ev.hasval /\ BSign(B(Ev.val.d)) <= 0, V("C16", [m |-> "printed denominator not positive"]))
           ELSE If(MustAccept, V("C16", [m |-> "well-formed literal rejected"])) )
TrOther == /\ Ev.e # "lit" /\ l' = l + 1 /\ Note({})
Next == l <= Len(Tr) /\ (TrLit \/ TrOther)
Spec == Init /\ [][Next]_<<l, viol>>
Accepted ==
  IF TLCGet("stats").diameter = Len(Tr) + 1 THEN TRUE
  ELSE PrintT("@@REJECTED " \o ToString(TLCGet(2) + 1)) /\ FALSE
=============================================================================
