---------------------------- MODULE Names_Trace ----------------------------
(***************************************************************************)
(* Behaviours of Names.tla (every behaviour of MC_Names up to its depth,   *)
(* and longer random ones) executed on the real opensmt::TermNames by      *)
(* harness/drivers/names_driver.cc; after every operation the observable   *)
(* table of the implementation is compared with the specification's.       *)
(***************************************************************************)
EXTENDS Naturals, Sequences, FiniteSets, TLC, Json, IOUtils

Tr == ndJsonDeserialize(IOEnv.TRACE)

VARIABLES n2t, t2n, scopes, saved, res, glob, l, viol
NS == INSTANCE Names WITH NameSet <- {}, TermSet <- {}, Global <- FALSE     \* scoped declarations
NG == INSTANCE Names WITH NameSet <- {}, TermSet <- {}, Global <- TRUE      \* :global-declarations

vars == <<n2t, t2n, scopes, saved, res, glob, l, viol>>
Ev == Tr[l]
V(why) == [p |-> "C21", l |-> l, why |-> why, sid |-> "names", cfg |-> IF glob THEN "global" ELSE "scoped", kind |-> "driver"]
Note(vs) == /\ \A v \in vs : PrintT("@@VIOL " \o ToJson(v))
            /\ viol' = viol + Cardinality(vs) /\ TLCSet(2, l)
If(c, v) == IF c THEN {v} ELSE {}
Step == l' = l + 1
SetOf(s) == { s[i] : i \in DOMAIN s }

Init == /\ NS!NInit /\ glob = FALSE /\ l = 1 /\ viol = 0 /\ TLCSet(2, 0)

TrReset == /\ Ev.e = "reset" /\ Step /\ glob' = Ev.global
           /\ n2t' = << >> /\ t2n' = << >> /\ scopes' = << << >> >> /\ saved' = << >> /\ res' = "none"
           /\ viol' = viol /\ TLCSet(2, l)
\* the specification's table after the step against the implementation's
Compare ==
  If(Ev.res # res', V([m |-> "result", impl |-> Ev.res, spec |-> res'])) \cup
  If({ <<p[1], p[2]>> : p \in SetOf(Ev.n2t) } # { <<n, n2t'[n]>> : n \in DOMAIN n2t' },
     V([m |-> "name -> term differs", impl |-> Ev.n2t])) \cup
  If({ <<p[1], p[2]>> : p \in SetOf(Ev.t2n) } # { <<t, t2n'[t]>> : t \in DOMAIN t2n' },
     V([m |-> "term -> names differs", impl |-> Ev.t2n])) \cup
  If(~glob /\ [i \in DOMAIN Ev.pairs |-> <<Ev.pairs[i][1], Ev.pairs[i][2]>>] #
              (LET F[i \in 0 .. Len(scopes')] == IF i = 0 THEN << >> ELSE F[i - 1] \o scopes'[i] IN F[Len(scopes')]),
     V([m |-> "scoped pairs differ", impl |-> Ev.pairs]))
TrIns  == /\ Ev.e = "ins" /\ Step /\ NS!TryInsert(Ev.n, Ev.t) /\ UNCHANGED glob /\ Note(Compare)
TrPush == /\ Ev.e = "push" /\ Step /\ (IF glob THEN NG!PushScope ELSE NS!PushScope) /\ UNCHANGED glob /\ Note(Compare)
TrPop  == /\ Ev.e = "pop" /\ Step /\ (IF glob THEN NG!PopScope ELSE NS!PopScope) /\ UNCHANGED glob /\ Note(Compare)

Next == l <= Len(Tr) /\ (TrReset \/ TrIns \/ TrPush \/ TrPop)
Spec == Init /\ [][Next]_vars
Inv == NS!Consistent /\ NS!ScopesMatch
Accepted ==
  IF TLCGet("stats").diameter = Len(Tr) + 1 THEN TRUE
  ELSE PrintT("@@REJECTED " \o ToString(TLCGet(2) + 1)) /\ FALSE
=============================================================================
