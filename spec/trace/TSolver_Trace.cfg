SPECIFICATION Spec
CONSTANTS
  Atoms = {}
  MaxDepth = 100
POSTCONDITION Accepted
CHECK_DEADLOCK FALSE
