---------------------------- MODULE Terms_Trace ----------------------------
(***************************************************************************)
(* Trace specification for terms_driver: every call of a term constructor  *)
(* of Logic / ArithLogic with the term it returned.                        *)
(*  C14: the returned term res is equivalent to ref = op(args): a          *)
(*       violation is a grid interpretation (found and evaluated by TLC)   *)
(*       under which neq = (res # ref) holds.                              *)
(*  C28: identity discipline of TermStore over the observed PTRef values:  *)
(*       same constructor call => same identity; one identity <=> one      *)
(*       printed structure; arguments have smaller identities.             *)
(***************************************************************************)
EXTENDS Sat, Json, IOUtils

Tr == ndJsonDeserialize(IOEnv.TRACE)
VARIABLES tt, dom, fis, l, viol, calls, byX, byS
\* fis: alternative interpretations of the function symbols (sequences of [nm,p,b])
\* calls: <<op, canonical argument identities>> -> identity returned
\* byX: identity -> printed structure;  byS: printed structure -> identity
vars == <<tt, dom, fis, l, viol, calls, byX, byS>>
Ev == Tr[l]
V(p, why) == [p |-> p, l |-> l, why |-> why]
Note(vs) == /\ \A v \in vs : PrintT("@@VIOL " \o ToJson(v))
            /\ viol' = viol + Cardinality(vs) /\ TLCSet(2, l)
If(c, v) == IF c THEN {v} ELSE {}

Init == /\ tt = <<>> /\ dom = <<>> /\ fis = <<>> /\ l = 1 /\ viol = 0
        /\ calls = <<>> /\ byX = <<>> /\ byS = <<>> /\ TLCSet(2, 0)
TrFam == /\ Ev.e = "Fam" /\ l' = l + 1 /\ tt' = Ev.tt /\ dom' = Ev.dom /\ fis' = Ev.fis
         /\ calls' = <<>> /\ byX' = <<>> /\ byS' = <<>> /\ viol' = viol /\ TLCSet(2, l)

\* C14
Differs(neq) ==
  \E k \in DOMAIN fis :
     LET base == InterpOf(fis[k])
         rd == RelevantDom(tt, {neq}, base, dom) IN
     /\ OpenSyms(tt, {neq}, base) \subseteq DomNames(rd)
     /\ ExistsGrid(tt, {neq}, base, rd, 1, <<>>)

CallKey == <<Ev.op, Ev.key>>
TrMk ==
  /\ Ev.e = "mk" /\ l' = l + 1 /\ UNCHANGED <<tt, dom, fis>>
  /\ calls' = IF CallKey \in DOMAIN calls THEN calls ELSE (CallKey :> Ev.x) @@ calls
  /\ byX' = IF Ev.x \in DOMAIN byX THEN byX ELSE (Ev.x :> Ev.s) @@ byX
  /\ byS' = IF Ev.s \in DOMAIN byS THEN byS ELSE (Ev.s :> Ev.x) @@ byS
  /\ Note( If(Ev.mon /\ Differs(Ev.neq), V("C14", [op |-> Ev.op, args |-> Ev.args, res |-> Ev.res])) \cup
           If(CallKey \in DOMAIN calls /\ calls[CallKey] # Ev.x,
              V("C28", [sameCallDifferentIdentity |-> Ev.op, first |-> calls[CallKey], now |-> Ev.x])) \cup
           If(Ev.x \in DOMAIN byX /\ byX[Ev.x] # Ev.s,
              V("C28", [oneIdentityTwoStructures |-> Ev.x])) \cup
           If(Ev.s \in DOMAIN byS /\ byS[Ev.s] # Ev.x,
              V("C28", [oneStructureTwoIdentities |-> Ev.s])) \cup
           If(\E i \in DOMAIN Ev.kids : Ev.kids[i] >= Ev.x,
              V("C28", [subtermCreatedAfterTerm |-> Ev.x])) )
TrErr == /\ Ev.e = "mkerr" /\ l' = l + 1 /\ UNCHANGED <<tt, dom, fis, calls, byX, byS>> /\ Note({})

Next == l <= Len(Tr) /\ (TrFam \/ TrMk \/ TrErr)
Spec == Init /\ [][Next]_vars
Accepted ==
  IF TLCGet("stats").diameter = Len(Tr) + 1 THEN TRUE
  ELSE PrintT("@@REJECTED " \o ToString(TLCGet(2) + 1)) /\ FALSE
=============================================================================
