--------------------------- MODULE Engine_Trace ---------------------------
(***************************************************************************)
(* Trace specification for the guarded hooks inside the engine             *)
(* (-DOPENSMT_VERIF_TRACE): a DRUP-with-theory check of every execution.   *)
(*                                                                         *)
(*  cl / input          -> CDCLT!AddInput                                  *)
(*  tcl, rootded        -> CDCLT!AddTheory, monitor C11: the kernel finds  *)
(*                         a model of the negated clause                   *)
(*  cl / learnt,derived -> CDCLT!Learn, monitor C12: not RUP               *)
(*  farkas              -> monitor C26: coefficients positive, leaves      *)
(*                         cancel, constant absurd                         *)
(*  frame, give, fend   -> monitor C13: an assignment of the formulas      *)
(*                         given to the engine falsifies an assertion of   *)
(*                         an active frame                                 *)
(***************************************************************************)
EXTENDS CDCLT, Sat, Lin, Json, IOUtils

Tr == ndJsonDeserialize(IOEnv.TRACE)

VARIABLES tt, dom, l, viol, run, fr, gv
\* fr: frame index -> [id |-> frame id, asserted |-> set of terms]   (the current assertion stack)
\* gv: frame id -> set of root formulas given to the engine under that frame's literal;
\*     re-processing a frame after a new assertion adds to its roots, a popped frame's id is never reused

vars == <<db, tt, dom, l, viol, run, fr, gv>>
Ev == Tr[l]

V(p, why) == [p |-> p, l |-> l, why |-> why, sid |-> run.sid, cfg |-> run.cfg, kind |-> run.kind]
Note(vs) == /\ \A v \in vs : PrintT("@@VIOL " \o ToJson(v))
            /\ viol' = viol + Cardinality(vs) /\ TLCSet(2, l)
If(c, v) == IF c THEN {v} ELSE {}
Step == l' = l + 1
SetOf(s) == { s[i] : i \in DOMAIN s }

Init == /\ CInit /\ tt = <<>> /\ dom = <<>> /\ l = 1 /\ viol = 0 /\ fr = <<>> /\ gv = <<>>
        /\ run = [sid |-> "", cfg |-> "", kind |-> ""] /\ TLCSet(2, 0)

TrFam == /\ Ev.e = "Fam" /\ Step /\ tt' = Ev.tt /\ dom' = Ev.dom /\ db' = {} /\ fr' = <<>> /\ gv' = <<>>
         /\ run' = [sid |-> "", cfg |-> "", kind |-> ""] /\ viol' = viol /\ TLCSet(2, l)
TrRun == /\ Ev.e = "Run" /\ Step /\ run' = [sid |-> Ev.sid, cfg |-> Ev.cfg, kind |-> Ev.kind]
         /\ db' = {} /\ fr' = <<>> /\ gv' = <<>> /\ UNCHANGED <<tt, dom>> /\ viol' = viol /\ TLCSet(2, l)

TrInput ==
  /\ Ev.e = "cl" /\ Ev.kind = "input" /\ Step /\ AddInput(SetOf(Ev.lits))
  /\ UNCHANGED <<tt, dom, run, fr, gv>> /\ Note({})

TrLearn ==
  /\ Ev.e = "cl" /\ Ev.kind \in {"learnt", "derived"} /\ Step
  /\ Learn(SetOf(Ev.lits))
  /\ UNCHANGED <<tt, dom, run, fr, gv>>
  /\ Note(If(~LearnGuard(SetOf(Ev.lits)), V("C12", [site |-> Ev.site, clause |-> Ev.lits])))

\* the negated clause as a set of theory literals (terms); satisfiable => the clause is not valid
TheoryViol(kind) ==
  If(Ev.mon /\ CandWitness(tt, SetOf(Ev.neg), <<>>, Ev.h),
     V("C11", [kind |-> kind, clause |-> Ev.lits]))
TrTheory ==
  /\ Ev.e = "tcl" /\ Step /\ AddTheory(SetOf(Ev.lits))
  /\ UNCHANGED <<tt, dom, run, fr, gv>>
  /\ Note(TheoryViol(Ev.kind))
TrRootDed ==
  /\ Ev.e = "rootded" /\ Step /\ AddTheory(SetOf(Ev.lits))
  /\ UNCHANGED <<tt, dom, run, fr, gv>>
  /\ Note(TheoryViol("root deduction"))

TrFarkas ==
  /\ Ev.e = "farkas" /\ Step /\ UNCHANGED <<db, tt, dom, run, fr, gv>>
  /\ LET coefs == [i \in DOMAIN Ev.coefs |-> <<Ev.coefs[i].n, Ev.coefs[i].d>>] IN
     Note(IF ~Ev.mon THEN {}
          ELSE IF ~FarkasShapeOK(tt, Ev.lits, coefs) THEN {V("C26", [m |-> "explanation and coefficients do not match"])}
          ELSE If(~FarkasPositive(coefs), V("C26", [m |-> "non-positive coefficient"])) \cup
               If(~FarkasCancels(tt, Ev.lits, coefs), V("C26", [m |-> "variables do not cancel"])) \cup
               If(FarkasCancels(tt, Ev.lits, coefs) /\ ~FarkasAbsurd(tt, Ev.lits, coefs),
                  V("C26", [m |-> "weighted sum is not a false constant inequality"])))

\* preprocessing
Drop(f, i) == [j \in { k \in DOMAIN f : k < i } |-> f[j]]
TrFrame ==
  /\ Ev.e = "frame" /\ Step /\ UNCHANGED <<db, tt, dom, run, gv>>
  /\ fr' = (Ev.idx :> [id |-> Ev.id, asserted |-> SetOf(Ev.asserted)]) @@ Drop(fr, Ev.idx)
  /\ Note({})
TrGive ==
  /\ Ev.e = "give" /\ Step /\ UNCHANGED <<db, tt, dom, run, fr>>
  /\ gv' = IF Ev.id \in DOMAIN gv THEN [gv EXCEPT ![Ev.id] = @ \cup {Ev.root}]
           ELSE (Ev.id :> {Ev.root}) @@ gv
  /\ Note({})
Given(i) == UNION { gv[fr[j].id] : j \in { k \in DOMAIN fr : k <= i /\ fr[k].id \in DOMAIN gv } }
\* q: for every assertion a of the frame, its negation na and candidate models h of Given /\ na
TrFrameEnd ==
  /\ Ev.e = "fend" /\ Step /\ UNCHANGED <<db, tt, dom, run, fr, gv>>
  /\ Note(IF ~Ev.mon \/ Ev.idx \notin DOMAIN fr THEN {}
          ELSE { V("C13", [frame |-> Ev.idx, assertion |-> Ev.q[i].a]) :
                   i \in { j \in DOMAIN Ev.q :
                             /\ Ev.q[j].a \in fr[Ev.idx].asserted
                             /\ CandWitness(tt, Given(Ev.idx) \cup {Ev.q[j].na}, <<>>, Ev.q[j].h) } })

\* the engine's answer for what it was given; "unsat" although the assertions (as written) have a model: the formula
\* handed over is not equisatisfiable with them
TrCheck ==
  /\ Ev.e = "check" /\ Step /\ UNCHANGED <<db, tt, dom, run, fr, gv>>
  /\ Note(If(Ev.mon /\ Ev.ret = "unsat" /\ CandWitness(tt, SetOf(Ev.all), <<>>, Ev.h),
             V("C13", [m |-> "the engine refuted its input although the asserted formulas have a model"])))
TrOther ==
  /\ Ev.e \in {"Exit"} /\ Step /\ UNCHANGED <<db, tt, dom, run, fr, gv>> /\ Note({})

Next == /\ l <= Len(Tr)
        /\ \/ TrFam \/ TrRun \/ TrInput \/ TrLearn \/ TrTheory \/ TrRootDed \/ TrFarkas
           \/ TrFrame \/ TrGive \/ TrFrameEnd \/ TrCheck \/ TrOther
Spec == Init /\ [][Next]_vars
Accepted ==
  IF TLCGet("stats").diameter = Len(Tr) + 1 THEN TRUE
  ELSE PrintT("@@REJECTED " \o ToString(TLCGet(2) + 1)) /\ FALSE
=============================================================================
