SPECIFICATION Spec
INVARIANT Structural
POSTCONDITION Accepted
CHECK_DEADLOCK FALSE
