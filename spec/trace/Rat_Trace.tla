----------------------------- MODULE Rat_Trace -----------------------------
(***************************************************************************)
(* Trace specification for rat_driver (C15): every FastRational operation  *)
(* with its operands and result as exact decimal strings (converted to     *)
(* limb sequences by the harness), the representation state of the result  *)
(* and its hash.  All arithmetic below is BigInt arithmetic done by TLC.   *)
(*                                                                         *)
(* Values: [n, d] BigInt numerator/denominator as PRINTED by the solver.   *)
(*  - exactness: the printed result equals the exact result of the         *)
(*    operation on the printed operands (cross-multiplied);                *)
(*  - canonical form: d > 0 and gcd(n, d) = 1 (Bezout certificate from the *)
(*    harness, verified here);                                             *)
(*  - representation: a value that fits a machine word has a valid word    *)
(*    part ("fits-word => word valid"); equal values have equal printed    *)
(*    form and equal hash (memo keyed by the value).                       *)
(***************************************************************************)
EXTENDS BigInt, FiniteSets, TLC, Json, IOUtils

Tr == ndJsonDeserialize(IOEnv.TRACE)
VARIABLES l, viol, vals, byVal
\* vals: id -> [n, d, w, m, hash];  byVal: <<n, d>> -> [w, hash] of the first occurrence
vars == <<l, viol, vals, byVal>>
Ev == Tr[l]
V(p, why) == [p |-> p, l |-> l, why |-> why]
Note(vs) == /\ \A v \in vs : PrintT("@@VIOL " \o ToJson(v))
            /\ viol' = viol + Cardinality(vs) /\ TLCSet(2, l)
If(c, v) == IF c THEN {v} ELSE {}

B(x) == [neg |-> x.neg, m |-> x.m]
R(v) == [n |-> B(v.n), d |-> B(v.d)]
RInt(x) == [n |-> x, d |-> BOne]

\* 2^31 as limbs: 2147483648 = 21 4748 3648
P31 == [neg |-> FALSE, m |-> <<3648, 4748, 21>>]
P32 == [neg |-> FALSE, m |-> <<7296, 9496, 42>>]
FitsWord(v) ==  \* -2^31 < n < 2^31 (the code keeps WORD_MIN out of the word form) and 0 < d < 2^32
  /\ BCmp(BAbs(B(v.n)), P31) < 0 /\ BCmp(B(v.d), P32) < 0

Init == l = 1 /\ viol = 0 /\ vals = <<>> /\ byVal = <<>> /\ TLCSet(2, 0)
TrReset == /\ Ev.e = "Reset" /\ l' = l + 1 /\ vals' = <<>> /\ UNCHANGED byVal /\ viol' = viol /\ TLCSet(2, l)

ValueChecks(v) ==
  LET key == <<v.n, v.d>> IN
  If(~WellFormed(B(v.n)) \/ ~WellFormed(B(v.d)), V("C15", [m |-> "printed value is not a numeral"])) \cup
  If(BSign(B(v.d)) <= 0, V("C15", [denominatorNotPositive |-> Ev.i])) \cup
  If(~Coprime(R(v), B(Ev.cert.s), B(Ev.cert.t)), V("C15", [notInLowestTerms |-> Ev.i])) \cup
  If(FitsWord(v) /\ ~v.w, V("C15", [fitsWordButWordPartInvalid |-> Ev.i])) \cup
  If(~v.w /\ ~v.m, V("C15", [noValidRepresentation |-> Ev.i])) \cup
  If(~v.wf, V("C15", [notWellFormed |-> Ev.i])) \cup
  If(key \in DOMAIN byVal /\ byVal[key].hash # v.hash, V("C15", [equalValuesDifferentHash |-> Ev.i])) \cup
  If(key \in DOMAIN byVal /\ byVal[key].w # v.w, V("C15", [equalValuesDifferentRepresentation |-> Ev.i]))

Rec == [n |-> Ev.n, d |-> Ev.d, w |-> Ev.w, m |-> Ev.m, hash |-> Ev.hash, wf |-> Ev.wf]
Remember(v) ==
  /\ vals' = (Ev.i :> v) @@ vals
  /\ byVal' = IF <<v.n, v.d>> \in DOMAIN byVal THEN byVal ELSE (<<v.n, v.d>> :> [w |-> v.w, hash |-> v.hash]) @@ byVal

\* a literal: the printed value equals the value of the literal string (given as exact n/d by the harness,
\* not necessarily in lowest terms)
TrLit ==
  /\ Ev.e = "lit" /\ l' = l + 1 /\ Remember(Rec)
  /\ Note(ValueChecks(Rec) \cup
          If(~REq(R(Rec), [n |-> B(Ev.src.n), d |-> B(Ev.src.d)]), V("C15", [literalValueDiffers |-> Ev.i])))

Exact(op, a, b) ==
  CASE op \in {"add", "addassign"} -> RAdd(a, b)
    [] op \in {"sub", "subassign"} -> RSub(a, b)
    [] op \in {"mul", "mulassign"} -> RMul(a, b)
    [] op \in {"div", "divassign"} -> RDiv(a, b)
    [] op \in {"neg", "negate"} -> RNeg(a)
    [] op = "inv" -> [n |-> a.d, d |-> a.n]
    [] op = "copy" -> a
    [] op = "abs" -> [n |-> BAbs(a.n), d |-> a.d]
    [] op = "num" -> RInt(a.n)
    [] op = "den" -> RInt(a.d)
\* equality of rationals whose denominators may be negative (after RDiv / inv)
REqS(p, q) == BEq(BMul(p.n, q.d), BMul(q.n, p.d))

TrOp ==
  /\ Ev.e = "op" /\ l' = l + 1 /\ Remember(Rec)
  /\ LET a == R(vals[Ev.a])
         b == IF Ev.b \in DOMAIN vals THEN R(vals[Ev.b]) ELSE RInt(BZero)
         r == R(Rec)
         op == Ev.op IN
     Note(ValueChecks(Rec) \cup
       IF op \in {"add", "addassign", "sub", "subassign", "mul", "mulassign", "div", "divassign", "neg", "negate",
                  "inv", "copy", "abs", "num", "den"}
       THEN If(~REqS(r, Exact(op, a, b)), V("C15", [op |-> op, inexact |-> Ev.i]))
       ELSE IF op = "floor"
       THEN \* r integer, r <= a < r + 1
            If(~BEq(r.d, BOne) \/ RCmp(r, a) > 0 \/ RCmp(a, RAdd(r, RInt(BOne))) >= 0, V("C15", [op |-> op, wrong |-> Ev.i]))
       ELSE IF op = "ceil"
       THEN If(~BEq(r.d, BOne) \/ RCmp(r, a) < 0 \/ RCmp(RSub(r, RInt(BOne)), a) >= 0, V("C15", [op |-> op, wrong |-> Ev.i]))
       ELSE IF op = "fdivq"
       THEN \* integers a.n, b.n (b # 0): r = floor(a/b):  r*b <= a < (r+1)*b for b > 0, reversed for b < 0
            LET q == r.n  x == a.n  y == b.n
                lo == BMul(q, y)  hi == BMul(BAdd(q, BOne), y) IN
            If(~BEq(r.d, BOne) \/
               (BSign(y) > 0 /\ ~(BCmp(lo, x) <= 0 /\ BCmp(x, hi) < 0)) \/
               (BSign(y) < 0 /\ ~(BCmp(lo, x) >= 0 /\ BCmp(x, hi) > 0)), V("C15", [op |-> op, wrong |-> Ev.i]))
       ELSE IF op = "mod"
       THEN \* operator% on integers is the remainder of the floor division ("the return value has the
            \* sign of d"): x = q*y + r for the certificate quotient q, |r| < |y|, r = 0 or sign(r) = sign(y)
            LET x == a.n  y == b.n  q == B(Ev.cert.q) IN
            If(~BEq(r.d, BOne) \/ ~BEq(x, BAdd(BMul(q, y), r.n)) \/ BCmp(BAbs(r.n), BAbs(y)) >= 0
               \/ (BSign(r.n) # 0 /\ BSign(r.n) # BSign(y)),
               V("C15", [op |-> op, wrong |-> Ev.i]))
       ELSE IF op = "gcd"
       THEN \* g > 0 divides both (cofactors u, v from the harness) and is a combination s*x + t*y
            LET x == a.n  y == b.n  g == r.n IN
            If(~BEq(r.d, BOne) \/ BSign(g) <= 0 \/ ~BEq(BMul(g, B(Ev.cert.u)), x) \/ ~BEq(BMul(g, B(Ev.cert.v)), y)
               \/ ~BEq(BAdd(BMul(B(Ev.cert.gs), x), BMul(B(Ev.cert.gt), y)), g), V("C15", [op |-> op, wrong |-> Ev.i]))
       ELSE IF op = "lcm"
       THEN \* m >= 0 multiple of both with coprime cofactors: m = x*u = y*v, s*u + t*v = 1
            LET x == a.n  y == b.n  m == r.n IN
            If(~BEq(r.d, BOne) \/ BSign(m) < 0 \/ ~BEq(BMul(BAbs(x), B(Ev.cert.u)), m) \/ ~BEq(BMul(BAbs(y), B(Ev.cert.v)), m)
               \/ ~BEq(BAdd(BMul(B(Ev.cert.gs), B(Ev.cert.u)), BMul(B(Ev.cert.gt), B(Ev.cert.v))), BOne),
               V("C15", [op |-> op, wrong |-> Ev.i]))
       ELSE {})

TrQ ==
  /\ Ev.e = "q" /\ l' = l + 1 /\ UNCHANGED <<vals, byVal>>
  /\ LET a == R(vals[Ev.a])
         b == IF Ev.b \in DOMAIN vals THEN R(vals[Ev.b]) ELSE RInt(BZero)
         want == CASE Ev.op = "cmp" -> RCmp(a, b)
                   [] Ev.op = "eq" -> IF RCmp(a, b) = 0 THEN 1 ELSE 0
                   [] Ev.op = "lt" -> IF RCmp(a, b) < 0 THEN 1 ELSE 0
                   [] Ev.op = "le" -> IF RCmp(a, b) <= 0 THEN 1 ELSE 0
                   [] Ev.op = "sign" -> BSign(a.n)
                   [] Ev.op = "isint" -> IF BEq(a.d, BOne) THEN 1 ELSE 0
                   [] Ev.op = "iszero" -> IF BIsZero(a.n) THEN 1 ELSE 0
                   [] Ev.op = "isone" -> IF BEq(a.n, BOne) /\ BEq(a.d, BOne) THEN 1 ELSE 0 IN
     Note(If(want # Ev.r, V("C15", [op |-> Ev.op, expected |-> want, got |-> Ev.r, at |-> Ev.i])))
TrErr == /\ Ev.e = "err" /\ l' = l + 1 /\ UNCHANGED <<vals, byVal>> /\ Note({})

Next == l <= Len(Tr) /\ (TrReset \/ TrLit \/ TrOp \/ TrQ \/ TrErr)
Spec == Init /\ [][Next]_vars
Accepted ==
  IF TLCGet("stats").diameter = Len(Tr) + 1 THEN TRUE
  ELSE PrintT("@@REJECTED " \o ToString(TLCGet(2) + 1)) /\ FALSE
=============================================================================
