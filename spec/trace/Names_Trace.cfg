SPECIFICATION Spec
INVARIANT Inv
POSTCONDITION Accepted
CHECK_DEADLOCK FALSE
