--------------------------- MODULE TSolver_Trace ---------------------------
(***************************************************************************)
(* Trace specification for tsolver_driver: operation sequences on the      *)
(* theory solvers (through TSolverHandler) with their results.             *)
(* The consistency oracle of TSolver is the kernel: "sat" needs a model    *)
(* evaluated by TLC (candidates from the harness or none), "unsat" needs   *)
(* Refute!TUnsat.  Tags: C22 (verdicts and history independence), C11      *)
(* (explanations and deductions are theory-valid).                         *)
(***************************************************************************)
EXTENDS TSolver, Sat, Json, IOUtils

Tr == ndJsonDeserialize(IOEnv.TRACE)
VARIABLES tt, l, viol, memo, theory, okLen, stale, late
\* memo: set of literals (as <<atom, polarity>> pairs) -> first definitive complete verdict
\* okLen: length of the prefix of the stack that has passed a check; stale: some backtrack kept
\*   literals that were asserted after the last successful check (THandler never does that: it checks
\*   right after every batch of assertions and a conflict removes the whole batch).  stale only labels
\*   violation records, for the attribution of a known finding.
\* late: some atom of this sequence was declared while literals were asserted (atoms of lemmas and splits reach the
\*   solvers like that); like stale it only labels violation records.
vars == <<stack, bad, hist, tt, l, viol, memo, theory, okLen, stale, late>>
Ev == Tr[l]
V(p, why) == [p |-> p, l |-> l, why |-> why, theory |-> theory, stale |-> stale,
              late |-> (late \/ (Ev.e = "assert" /\ Ev.late))]
Note(vs) == /\ \A v \in vs : PrintT("@@VIOL " \o ToJson(v))
            /\ viol' = viol + Cardinality(vs) /\ TLCSet(2, l)
If(c, v) == IF c THEN {v} ELSE {}

\* a literal as a formula of the table: lt[i] is the term for atom/polarity (harness supplies not-terms)
LitSet(S) == { IF x.s THEN x.t ELSE x.n : x \in S }
\* verdict of a set of literal records [t, n, s] (n = id of the negated atom)
KVerdict(S, h) ==
  IF S = {} THEN "sat"
  ELSE IF HintWitness(tt, LitSet(S), <<>>, h) THEN "sat"
  ELSE IF TUnsat(tt, { [t |-> x.t, s |-> x.s] : x \in S }, TrueId(tt), FalseId(tt)) THEN "unsat"
  ELSE "unknown"
Key(S) == { <<x.t, x.s>> : x \in S }

Init == /\ TInit /\ tt = <<>> /\ l = 1 /\ viol = 0 /\ memo = <<>> /\ theory = "" /\ okLen = 0 /\ stale = FALSE /\ late = FALSE /\ TLCSet(2, 0)
TrFam == /\ Ev.e = "Fam" /\ l' = l + 1 /\ tt' = Ev.tt /\ theory' = Ev.theory /\ memo' = <<>>
         /\ stack' = <<>> /\ bad' = FALSE /\ hist' = <<>> /\ okLen' = 0 /\ stale' = FALSE /\ late' = FALSE /\ viol' = viol /\ TLCSet(2, l)
TrReset == /\ Ev.e = "Reset" /\ l' = l + 1 /\ stack' = <<>> /\ bad' = FALSE /\ hist' = <<>>
           /\ okLen' = 0 /\ stale' = FALSE /\ late' = FALSE
           /\ UNCHANGED <<tt, theory, memo>> /\ viol' = viol /\ TLCSet(2, l)

TrAssert ==
  /\ Ev.e = "assert" /\ l' = l + 1 /\ UNCHANGED <<tt, theory, memo, okLen, stale>> /\ late' = (late \/ Ev.late)
  /\ LET lit == [t |-> Ev.t, n |-> Ev.n, s |-> Ev.s] IN
     /\ AssertEff(lit, Ev.ok)
     /\ Note( If(~Ev.ok /\ Ev.mon /\ ~AssertGuard(Ev.ok, KVerdict(Lits(stack) \cup {lit}, Ev.h)),
                 V("C22", [assertReportedInconsistency |-> Ev.t])) )
TrCheck ==
  /\ Ev.e = "check" /\ l' = l + 1 /\ UNCHANGED <<tt, theory, stale, late>>
  /\ CheckEff(Ev.res)
  /\ okLen' = IF Ev.res = "SAT" THEN Len(stack) ELSE okLen
  /\ LET S == Lits(stack)
         v == IF Ev.mon THEN KVerdict(S, Ev.h) ELSE "unknown"
         definitive == Ev.res = "UNSAT" \/ (Ev.res = "SAT" /\ Ev.complete /\ Ev.exact) IN
     \* sequences with late declarations neither feed nor consult the memo: their verdicts are judged by the kernel
     \* alone, so that a finding about late declarations cannot show up in another sequence under another label
     /\ memo' = IF definitive /\ ~late /\ Key(S) \notin DOMAIN memo THEN (Key(S) :> Ev.res) @@ memo ELSE memo
     /\ PrintT("@@SAT " \o ToJson([l |-> l, r |-> Ev.res, v |-> v]))
     /\ Note( If(~CheckGuard(Ev.res, Ev.complete /\ Ev.exact, v), V("C22", [verdict |-> Ev.res, kernel |-> v])) \cup
              If(definitive /\ ~late /\ Key(S) \in DOMAIN memo /\ memo[Key(S)] # Ev.res,
                 V("C22", [sameLiteralsDifferentVerdicts |-> <<memo[Key(S)], Ev.res>>])) )
TrExpl ==   \* explanation of the last inconsistency
  /\ Ev.e = "expl" /\ l' = l + 1 /\ UNCHANGED <<stack, bad, hist, tt, theory, memo, okLen, stale, late>>
  /\ LET E == { [t |-> Ev.lits[i].t, n |-> Ev.lits[i].n, s |-> Ev.lits[i].s] : i \in DOMAIN Ev.lits } IN
     Note( If(~(Key(E) \subseteq Key(Lits(stack))), V("C22", [m |-> "explanation mentions a literal that is not asserted"])) \cup
           If(Ev.mon /\ KVerdict(E, Ev.h) = "sat", V("C11", [m |-> "explanation is theory-satisfiable"])) )
TrDeduce ==  \* a deduced literal d: stack and not d must not be satisfiable
  /\ Ev.e = "deduce" /\ l' = l + 1 /\ UNCHANGED <<stack, bad, hist, tt, theory, memo, okLen, stale, late>>
  /\ LET nd == [t |-> Ev.t, n |-> Ev.n, s |-> ~Ev.s] IN
     Note( If(Ev.mon /\ ~DeduceGuard(KVerdict(Lits(stack) \cup {nd}, Ev.h)), V("C11", [deductionNotEntailed |-> Ev.t])) )
TrPop ==
  /\ Ev.e = "pop" /\ l' = l + 1 /\ UNCHANGED <<tt, theory, memo, late>>
  /\ PopLegal(Ev.n) /\ PopEff(Ev.n)
  /\ okLen' = IF Len(stack) - Ev.n < okLen THEN Len(stack) - Ev.n ELSE okLen
  /\ stale' = (stale \/ Len(stack) - Ev.n > okLen)
  /\ Note({})

Next == l <= Len(Tr) /\ (TrFam \/ TrReset \/ TrAssert \/ TrCheck \/ TrExpl \/ TrDeduce \/ TrPop)
Spec == Init /\ [][Next]_vars
Accepted ==
  IF TLCGet("stats").diameter = Len(Tr) + 1 THEN TRUE
  ELSE PrintT("@@REJECTED " \o ToString(TLCGet(2) + 1)) /\ FALSE
=============================================================================
