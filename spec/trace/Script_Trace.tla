--------------------------- MODULE Script_Trace ---------------------------
(***************************************************************************)
(* Trace specification for black-box executions of the opensmt binary.     *)
(*                                                                         *)
(* The trace (ndjson, file named by the environment variable TRACE) is a   *)
(* sequence of families.  A family shares one term table and consists of   *)
(* runs of script variants (configurations, fresh-solver prefixes,         *)
(* variants with rejected commands, pipe/file, re-runs).  One line = one   *)
(* command together with the response the executable gave.                 *)
(*                                                                         *)
(* Replay is response-directed: "(error ...)" fires Script!Reject, any     *)
(* other response fires the command's effect.  Guards of Script are        *)
(* evaluated as monitors: a failed guard is printed as an "@@VIOL" line    *)
(* and added to viol; replay continues to the end of the trace.            *)
(* Functional-dependency monitors (the memo variables) compare runs of one *)
(* family.  run.dup (the solver saw one formula inserted twice) is carried  *)
(* into violation records only to attribute known findings.                *)
(***************************************************************************)
EXTENDS Script, Json, IOUtils

Tr == ndJsonDeserialize(IOEnv.TRACE)

VARIABLES
  l,        \* next trace line
  viol,     \* number of violations so far
  run,      \* the current Run record
  memo,     \* set of assertions -> first definitive answer [ans, cfg, kind, l]
  memoCmd,  \* <<base script, command index>> -> response class in the clean variant
  memoOut,  \* <<script, cfg>> -> [outh, status, io]
  popped,   \* names (of terms and definitions) removed by a pop in this run
  rejSeen,  \* a command has been rejected earlier in this run
  unsatAt,  \* depths at which a check-sat answered unsat and that are still on the stack
  poppedUnsat, \* a level on which check-sat answered unsat has been popped (labels records only)
  rejNamed  \* a rejected command contained a :named annotation (labels records only)

tvars == <<l, viol, run, memo, memoCmd, memoOut, popped, rejSeen, unsatAt, poppedUnsat, rejNamed>>
vars == <<svars, tvars>>

Ev == Tr[l]
NoRun == [sid |-> "", cfg |-> "", kind |-> "", io |-> "", base |-> "", intl |-> FALSE, dup |-> FALSE, logic |-> ""]

\* ---- reporting --------------------------------------------------------
\* features of the current state used only to attribute known findings
RECURSIVE HasTermIte(_)
HasTermIte(t) == (tt[t].k = "a" /\ tt[t].op = "ite" /\ tt[t].s # "Bool")
                 \/ \E i \in DOMAIN tt[t].a : HasTermIte(tt[t].a[i])
IteNamed == \E n \in DOMAIN names : HasTermIte(names[n].t)
RECURSIVE HasDistinct3(_)
HasDistinct3(t) == (tt[t].k = "a" /\ tt[t].op = "distinct" /\ Len(tt[t].a) >= 3)
                   \/ \E i \in DOMAIN tt[t].a : HasDistinct3(tt[t].a[i])
Distinct3 == \E t \in Active : HasDistinct3(t)
V(p, why) == [p |-> p, l |-> l, why |-> why, sid |-> run.sid, cfg |-> run.cfg, logic |-> run.logic,
              kind |-> run.kind, afterReject |-> rejSeen, dup |-> run.dup, iteNamed |-> IteNamed, poppedUnsat |-> poppedUnsat, rejNamed |-> rejNamed, distinct3 |-> Distinct3]
Report(vs) == \A v \in vs : PrintT("@@VIOL " \o ToJson(v))
\* vs is a set of violation records
Note(vs) == /\ Report(vs) /\ viol' = viol + Cardinality(vs)
            /\ TLCSet(2, l)

If(c, v) == IF c THEN {v} ELSE {}

\* ---- framing ----------------------------------------------------------
Init ==
  /\ l = 1 /\ viol = 0 /\ run = NoRun
  /\ memo = <<>> /\ memoCmd = <<>> /\ memoOut = <<>> /\ popped = {} /\ rejSeen = FALSE
  /\ unsatAt = {} /\ poppedUnsat = FALSE /\ rejNamed = FALSE
  /\ ScriptInit(<<>>, <<>>)
  /\ TLCSet(2, 0)

Step == l' = l + 1

TrFam ==
  /\ Ev.e = "Fam" /\ Step
  /\ tt' = Ev.tt /\ dom' = Ev.dom
  /\ inited' = FALSE /\ opts' = DefaultOpts /\ stack' = << <<>> >> /\ names' = <<>>
  /\ defs' = <<>> /\ mode' = "start" /\ model' = <<>> /\ errs' = 0 /\ fids' = <<0>> /\ nextFid' = 1
  /\ memo' = <<>> /\ memoCmd' = <<>> /\ memoOut' = <<>> /\ popped' = {} /\ rejSeen' = FALSE
  /\ unsatAt' = {} /\ poppedUnsat' = FALSE /\ rejNamed' = FALSE
  /\ run' = NoRun /\ viol' = viol /\ TLCSet(2, l)

TrRun ==
  /\ Ev.e = "Run" /\ Step
  /\ run' = [sid |-> Ev.sid, cfg |-> Ev.cfg, kind |-> Ev.kind, io |-> Ev.io,
             base |-> Ev.base, intl |-> Ev.intl, dup |-> Ev.dup, logic |-> Ev.logic]
  /\ inited' = FALSE /\ opts' = DefaultOpts /\ stack' = << <<>> >> /\ names' = <<>>
  /\ defs' = <<>> /\ mode' = "start" /\ model' = <<>> /\ errs' = 0 /\ fids' = <<0>> /\ nextFid' = 1
  /\ popped' = {} /\ rejSeen' = FALSE /\ unsatAt' = {} /\ poppedUnsat' = FALSE /\ rejNamed' = FALSE
  /\ UNCHANGED <<tt, dom, memo, memoCmd, memoOut>> /\ viol' = viol /\ TLCSet(2, l)

\* ---- clean-variant comparison (C19) -----------------------------------
CmdKey == <<run.base, Ev.ci>>
CmdMemoViol(r) ==
  IF Ev.ci > 0 /\ run.kind = "reject" /\ CmdKey \in DOMAIN memoCmd /\ memoCmd[CmdKey].cfg = run.cfg
  THEN If( /\ memoCmd[CmdKey].r # r
           /\ ~(r \in {"unknown", "timeout"}) /\ ~(memoCmd[CmdKey].r \in {"unknown", "timeout"}),
           V("C19", [clean |-> memoCmd[CmdKey].r, withRejected |-> r])) \cup
       \* the same answer class, but what a query printed differs (models, cores, interpolants, proofs)
       If( /\ memoCmd[CmdKey].r = r /\ Ev.rh # "" /\ memoCmd[CmdKey].rh # "" /\ memoCmd[CmdKey].rh # Ev.rh,
           V("C19", [m |-> "a query prints something else than in the script without the rejected commands", cmd |-> Ev.c]))
  ELSE {}
CmdMemoUpd(r) ==
  memoCmd' = IF Ev.ci > 0 /\ run.kind = "main" /\ CmdKey \notin DOMAIN memoCmd
             THEN (CmdKey :> [r |-> r, cfg |-> run.cfg, rh |-> Ev.rh]) @@ memoCmd ELSE memoCmd

\* ---- commands ---------------------------------------------------------
IsCmd(c) == Ev.e = "Cmd" /\ Ev.c = c

\* a command the harness knows to be illegal (syntax, sorts, unknown symbols,
\* wrong mode) must be answered by an error
MustRejectViol == If(Ev.must = "reject" /\ Ev.r # "error", V("C18", [m |-> "illegal command accepted"])) \cup CmdMemoViol(Ev.r)

TrReject ==
  /\ Ev.e = "Cmd" /\ Ev.r = "error" /\ Step /\ Reject
  /\ rejSeen' = TRUE
  /\ rejNamed' = (rejNamed \/ Ev.hasNamed)
  /\ CmdMemoUpd("error")
  /\ UNCHANGED <<run, memo, memoOut, popped, unsatAt, poppedUnsat>>
  /\ Note( CmdMemoViol("error") \cup
           \* a request the properties require to be accepted
           If( /\ Ev.c = "assert" /\ Ev.wf /\ NamesFresh(Ev.nm, Ev.inner)
               /\ \E i \in DOMAIN NewNames(Ev.nm, Ev.t, Ev.inner) :
                     NewNames(Ev.nm, Ev.t, Ev.inner)[i].nm \in popped,
               V("C21", [m |-> "re-introduction of a popped name rejected"])) \cup
           If( /\ Ev.c = "define" /\ Ev.wf /\ DefineFresh(Ev.nm) /\ Ev.nm \in popped,
               V("C21", [m |-> "re-definition of a popped function rejected"])) \cup
           If( /\ Ev.c = "get-interpolants" /\ mode = "unsat" /\ opts.itp = "true"
               /\ \A g \in DOMAIN Ev.groups : GroupLegal(Ev.groups[g]),
               V("C08", [m |-> "well-formed interpolation request rejected"])) \cup
           If( Ev.must = "accept", V("C18", [m |-> "legal command rejected"])) )

TrSimple ==  \* commands without effect on the modelled state
  /\ Ev.e = "Cmd" /\ Ev.r # "error" /\ Step
  /\ Ev.c \in {"declare", "declare-sort", "set-info", "get-info", "get-option", "echo",
               "exit", "other"}
  /\ Silent /\ CmdMemoUpd(Ev.r)
  /\ UNCHANGED <<run, memo, memoOut, popped, rejSeen, unsatAt, poppedUnsat, rejNamed>>
  /\ Note(MustRejectViol \cup CmdMemoViol(Ev.r))

TrBad ==  \* text that is not a well-formed command: must be diagnosed, state unchanged
  /\ IsCmd("bad") /\ Ev.r # "error" /\ Step /\ Silent
  /\ UNCHANGED <<run, memo, memoCmd, memoOut, popped, rejSeen, unsatAt, poppedUnsat, rejNamed>>
  /\ Note({V("C18", [m |-> "malformed input not diagnosed"])})

TrSetLogic ==
  /\ IsCmd("set-logic") /\ Ev.r # "error" /\ Step /\ SetLogicEff /\ CmdMemoUpd(Ev.r)
  /\ UNCHANGED <<run, memo, memoOut, popped, rejSeen, unsatAt, poppedUnsat, rejNamed>>
  /\ Note(MustRejectViol)

TrSetOption ==
  /\ IsCmd("set-option") /\ Ev.r # "error" /\ Step /\ SetOptionEff(Ev.k, Ev.v) /\ CmdMemoUpd(Ev.r)
  /\ UNCHANGED <<run, memo, memoOut, popped, rejSeen, unsatAt, poppedUnsat, rejNamed>>
  /\ Note(MustRejectViol)

TrDefine ==
  /\ IsCmd("define") /\ Ev.r # "error" /\ Step /\ DefineEff(Ev.nm, Ev.p, Ev.b) /\ CmdMemoUpd(Ev.r)
  /\ UNCHANGED <<run, memo, memoOut, popped, rejSeen, unsatAt, poppedUnsat, rejNamed>>
  /\ Note(MustRejectViol \cup
          If(~DefineFresh(Ev.nm), V("C18", [m |-> "duplicate definition accepted"])))

TrAssert ==
  /\ IsCmd("assert") /\ Ev.r # "error" /\ Step /\ AssertEff(Ev.t, Ev.nm, Ev.inner) /\ CmdMemoUpd(Ev.r)
  /\ UNCHANGED <<run, memo, memoOut, popped, rejSeen, unsatAt, poppedUnsat, rejNamed>>
  /\ Note(MustRejectViol \cup CmdMemoViol(Ev.r) \cup
          If(~NamesFresh(Ev.nm, Ev.inner), V("C18", [m |-> "duplicate name accepted"])))

TrPush ==
  /\ IsCmd("push") /\ Ev.r # "error" /\ Step /\ PushEff(Ev.n) /\ CmdMemoUpd(Ev.r)
  /\ UNCHANGED <<run, memo, memoOut, popped, rejSeen, unsatAt, poppedUnsat, rejNamed>>
  /\ Note(MustRejectViol \cup CmdMemoViol(Ev.r) \cup
          If(~PushLegal(Ev.n), V("C18", [m |-> "illegal push accepted"])))

TrPop ==
  /\ IsCmd("pop") /\ Ev.r # "error" /\ Step /\ CmdMemoUpd(Ev.r)
  /\ IF PopLegal(Ev.n)
     THEN /\ PopEff(Ev.n)
          /\ popped' = popped \cup { x \in DOMAIN names : names[x].lvl > Depth - Ev.n }
                              \cup { x \in DOMAIN defs : defs[x].lvl > Depth - Ev.n }
     ELSE Silent /\ popped' = popped
  /\ unsatAt' = IF PopLegal(Ev.n) THEN { d \in unsatAt : d <= Depth - Ev.n } ELSE unsatAt
  /\ poppedUnsat' = (poppedUnsat \/ (PopLegal(Ev.n) /\ \E d \in unsatAt : d > Depth - Ev.n))
  /\ UNCHANGED <<run, memo, memoOut, rejSeen, rejNamed>>
  /\ Note(MustRejectViol \cup CmdMemoViol(Ev.r) \cup
          If(~PopLegal(Ev.n), V("C18", [m |-> "illegal pop accepted"])))

\* check-sat: C01, C02 by the kernel; C04, C05 by the memo; C30 on a time-out
MemoViol(r) ==
  IF r \in {"sat", "unsat"} /\ Active \in DOMAIN memo /\ memo[Active].ans # r
  THEN {V(IF memo[Active].cfg = run.cfg THEN "C04" ELSE "C05",
          [now |-> r, before |-> memo[Active]])}
  ELSE {}
TrCheckSat ==
  /\ IsCmd("check-sat") /\ Ev.r # "error" /\ Step
  /\ LET r == Ev.r
         v == IF r \in {"sat", "unsat"} /\ Ev.mon THEN Verdict(Ev.h) ELSE "skipped" IN
     /\ CheckSatEff(IF r \in {"sat", "unsat"} THEN r ELSE "unknown")
     /\ memo' = IF r \in {"sat", "unsat"} /\ Active \notin DOMAIN memo
                THEN (Active :> [ans |-> r, cfg |-> run.cfg, kind |-> run.kind, l |-> l]) @@ memo
                ELSE memo
     /\ CmdMemoUpd(r)
     /\ PrintT("@@SAT " \o ToJson([l |-> l, r |-> r, v |-> v]))
     /\ Note( If(r = "unsat" /\ v = "sat",  V("C01", [m |-> "kernel has a model of the active assertions"])) \cup
              If(r = "sat" /\ v = "unsat", V("C02", [m |-> "kernel refutes the active assertions"])) \cup
              If(r = "timeout" /\ ~run.intl, V("C30", [m |-> "check-sat did not return"])) \cup
              MemoViol(r) \cup CmdMemoViol(r) \cup MustRejectViol )
  /\ unsatAt' = IF Ev.r = "unsat" THEN unsatAt \cup {Depth} ELSE unsatAt
  /\ UNCHANGED <<run, memoOut, popped, rejSeen, poppedUnsat, rejNamed>>

\* get-model: C03
TrGetModel ==
  /\ IsCmd("get-model") /\ Ev.r # "error" /\ Step
  /\ GetModelEff(IF Ev.pok THEN Ev.m ELSE <<>>) /\ CmdMemoUpd(Ev.r)
  /\ UNCHANGED <<run, memo, memoOut, popped, rejSeen, unsatAt, poppedUnsat, rejNamed>>
  /\ Note( MustRejectViol \cup
           If(~Ev.pok, V("C17", [m |-> "printed model is not well-formed SMT-LIB"])) \cup
           IF Ev.pok /\ Ev.mon /\ mode = "sat"
           THEN IF ~ModelDefinesAll(Ev.m) THEN {V("C03", [m |-> "model leaves a symbol undefined"])}
                ELSE If(~ModelSatisfies(Ev.m), V("C03", [m |-> "model falsifies an assertion"]))
           ELSE {} )

TrGetValue ==
  /\ IsCmd("get-value") /\ Ev.r # "error" /\ Step /\ Silent /\ CmdMemoUpd(Ev.r)
  /\ UNCHANGED <<run, memo, memoOut, popped, rejSeen, unsatAt, poppedUnsat, rejNamed>>
  /\ Note( MustRejectViol \cup
           If(~Ev.pok, V("C17", [m |-> "printed values are not well-formed SMT-LIB"])) \cup
           IF Ev.pok /\ Ev.mon /\ mode = "sat" /\ model # <<>>
           THEN { V("C03", [value |-> i]) : i \in { j \in DOMAIN Ev.ts : ~ValueOK(model, Ev.ts[j], Ev.vs[j]) } }
           ELSE {} )

TrGetAssignment ==
  /\ IsCmd("get-assignment") /\ Ev.r # "error" /\ Step /\ Silent /\ CmdMemoUpd(Ev.r)
  /\ UNCHANGED <<run, memo, memoOut, popped, rejSeen, unsatAt, poppedUnsat, rejNamed>>
  /\ Note( MustRejectViol \cup
           { V("C21", [assignmentMentions |-> Ev.as[i].nm]) :
                i \in { j \in DOMAIN Ev.as : Ev.as[j].nm \notin DOMAIN names } } \cup
           IF Ev.mon /\ mode = "sat" /\ model # <<>>
           THEN { V("C03", [assignment |-> Ev.as[i].nm]) :
                    i \in { j \in DOMAIN Ev.as : Ev.as[j].nm \in DOMAIN names
                                                  /\ ~AssignOK(model, Ev.as[j].nm, Ev.as[j].v) } }
           ELSE {} )

\* get-unsat-core: C06, C07, C21
TrGetUnsatCore ==
  /\ IsCmd("get-unsat-core") /\ Ev.r # "error" /\ Step /\ Silent /\ CmdMemoUpd(Ev.r)
  /\ UNCHANGED <<run, memo, memoOut, popped, rejSeen, unsatAt, poppedUnsat, rejNamed>>
  /\ Note( MustRejectViol \cup
           IF ~Ev.pok THEN {V("C17", [m |-> "printed core is not well-formed SMT-LIB"])}
           ELSE IF mode # "unsat" THEN {}
           ELSE IF Ev.full
           THEN If(Ev.mon /\ ~FullCoreCurrent(Ev.fs, Ev.fx), V("C06", [m |-> "printed formula is not a current assertion"])) \cup
                If(Ev.mon /\ ~FullCoreUnsat(Ev.fs, Ev.h), V("C06", [m |-> "printed formulas are satisfiable"])) \cup
                If(Ev.mon /\ opts.mincores = "true" /\ ~FullCoreIrreducible(Ev.fs, Ev.hm),
                   V("C07", [m |-> "a printed formula is redundant"]))
           ELSE If(~CoreNoRepeat(Ev.core), V("C06", [m |-> "name repeated in core"])) \cup
                { V(IF n \in popped THEN "C21" ELSE "C06", [notACurrentNamedAssertion |-> n]) :
                     n \in CoreNames(Ev.core) \ TopNames } \cup
                IF CoreCurrent(Ev.core)
                THEN If(Ev.mon /\ ~CoreUnsat(Ev.core, Ev.h), V("C06", [m |-> "core with unnamed assertions is satisfiable"])) \cup
                     If(Ev.mon /\ opts.mincores = "true" /\ CoreNoRepeat(Ev.core) /\ ~CoreIrreducible(Ev.core, Ev.hm),
                        V("C07", [m |-> "a core member is redundant", members |-> RedundantMembers(Ev.core, Ev.hm)]))
                ELSE {} )

\* get-interpolants: C08, C09
TrGetInterpolants ==
  /\ IsCmd("get-interpolants") /\ Ev.r # "error" /\ Step /\ Silent /\ CmdMemoUpd(Ev.r)
  /\ UNCHANGED <<run, memo, memoOut, popped, rejSeen, unsatAt, poppedUnsat, rejNamed>>
  /\ Note( MustRejectViol \cup
           IF ~Ev.pok THEN {V("C17", [m |-> "printed interpolants are not well-formed SMT-LIB"])}
           ELSE IF ~(\A g \in DOMAIN Ev.groups : GroupLegal(Ev.groups[g]))
           THEN { V("C21", [m |-> "interpolation over a name that is not a current assertion accepted"]) }
           ELSE IF mode # "unsat" \/ ~Ev.mon THEN {}
           ELSE IF Len(Ev.itps) # Len(Ev.groups) - 1
           THEN {V("C08", [m |-> "wrong number of interpolants"])}
           ELSE UNION { LET A == ASide(Ev.groups, j)
                            B == BSide(Ev.groups, j)
                            tag == IF Len(Ev.groups) > 2 THEN "C09" ELSE "C08" IN
                        If(~ItpImplied(A, Ev.nitps[j], Ev.hA[j]), V(tag, [notImpliedByA |-> j])) \cup
                        If(~ItpRefutesB(B, Ev.itps[j], Ev.hB[j]), V(tag, [consistentWithB |-> j])) \cup
                        If(~ItpShared(A, B, Ev.itps[j]), V(tag, [nonSharedSymbol |-> j])) \cup
                        If(j < Len(Ev.itps) /\
                           ~PathStep(Ev.itps[j], GroupSet(Ev.groups[j + 1]), Ev.nitps[j + 1], Ev.hP[j]),
                           V("C09", [pathStepFails |-> j]))
                      : j \in DOMAIN Ev.itps } )

\* get-proof: C10
TrGetProof ==
  /\ IsCmd("get-proof") /\ Ev.r # "error" /\ Step /\ Silent /\ CmdMemoUpd(Ev.r)
  /\ UNCHANGED <<run, memo, memoOut, popped, rejSeen, unsatAt, poppedUnsat, rejNamed>>
  /\ Note( MustRejectViol \cup
           IF ~Ev.pok THEN {V("C10", [m |-> "printed proof cannot be read"])}
           ELSE IF mode # "unsat" \/ ~Ev.mon THEN {}
           ELSE If(~UniqueNames(Ev.nodes), V("C10", [m |-> "a clause name is bound twice"])) \cup
                If(~BoundBeforeUse(Ev.nodes), V("C10", [m |-> "a clause name is used before it is bound"])) \cup
                IF BoundBeforeUse(Ev.nodes) /\ UniqueNames(Ev.nodes)
                THEN If(~StepsValid(Ev.nodes),
                        V("C10", [badStep |-> "a resolution step has no pivot with opposite signs",
                                  constantPivot |-> \E k \in DOMAIN Ev.nodes : \E j \in DOMAIN Ev.nodes[k].steps :
                                                       tt[Ev.nodes[k].steps[j].p].k = "b"])) \cup
                     If(StepsValid(Ev.nodes) /\ ~RootClosed(Ev.nodes, Ev.root),
                        V("C10", [rootNotBoundOrNotEmpty |-> Ev.root])) \cup
                     If(~ActivationsCurrent(Ev.nodes, ActiveFids), V("C10", [m |-> "the proof activates a level that is not on the stack"])) \cup
                     { V("C10", [leafNotImplied |-> Ev.nodes[k].id]) :
                          k \in { j \in DOMAIN Ev.nodes : ~LeafImplied(Ev.nodes, j, { Ev.prem[i] : i \in DOMAIN Ev.prem }, Ev.hl[j]) } }
                ELSE {} )

\* end of a run: exit status, crash, output as a function of (script, cfg)
OutKey == <<run.sid, run.cfg>>
TrExit ==
  /\ Ev.e = "Exit" /\ Step
  /\ memoOut' = IF Ev.det /\ OutKey \notin DOMAIN memoOut
                THEN (OutKey :> [outh |-> Ev.outh, status |-> Ev.status, io |-> run.io]) @@ memoOut
                ELSE memoOut
  /\ UNCHANGED <<svars, run, memo, memoCmd, popped, rejSeen, unsatAt, poppedUnsat, rejNamed>>
  /\ Note( If(Ev.sig # 0, V("C18", [signal |-> Ev.sig, site |-> Ev.site])) \cup
           If(Ev.san, V("C18", [sanitizer |-> Ev.site])) \cup
           If(Ev.to /\ ~Ev.pending, V("C18", [m |-> "script without pending check-sat did not terminate"])) \cup
           If(~Ev.to /\ Ev.sig = 0 /\ ~Ev.san /\ errs > 0 /\ Ev.status = 0,
              V("C18", [m |-> "a command was rejected but the exit status is 0"])) \cup
           If(~Ev.to /\ Ev.sig = 0 /\ ~Ev.san /\ errs = 0 /\ Ev.nerr = 0 /\ Ev.status # 0,
              V("C18", [m |-> "no diagnostic but non-zero exit status"])) \cup
           If(~Ev.to /\ Ev.sig = 0 /\ Ev.synerr /\ Ev.status = 0,
              V("C18", [m |-> "syntax error but the exit status is 0"])) \cup
           IF Ev.det /\ OutKey \in DOMAIN memoOut
              /\ (memoOut[OutKey].outh # Ev.outh \/ memoOut[OutKey].status # Ev.status)
           THEN {V(IF memoOut[OutKey].io # run.io THEN "C20" ELSE "C23",
                   [first |-> memoOut[OutKey], now |-> [outh |-> Ev.outh, status |-> Ev.status, io |-> run.io]])}
           ELSE {} )

Next ==
  /\ l <= Len(Tr)
  /\ \/ TrFam \/ TrRun \/ TrReject \/ TrSimple \/ TrBad \/ TrSetLogic \/ TrSetOption
     \/ TrDefine \/ TrAssert \/ TrPush \/ TrPop \/ TrCheckSat \/ TrGetModel \/ TrGetValue
     \/ TrGetAssignment \/ TrGetUnsatCore \/ TrGetInterpolants \/ TrGetProof \/ TrExit

Spec == Init /\ [][Next]_vars

\* every line consumed
Accepted ==
  IF TLCGet("stats").diameter = Len(Tr) + 1 THEN TRUE
  ELSE PrintT("@@REJECTED " \o ToString(TLCGet(2) + 1)) /\ FALSE
=============================================================================
