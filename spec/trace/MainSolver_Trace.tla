------------------------- MODULE MainSolver_Trace -------------------------
(***************************************************************************)
(* Recorded executions of the real MainSolver (guarded hooks push, pop,    *)
(* insert, frame, give, check) replayed through the structural operators   *)
(* of MainSolver.tla.  The specification state is driven by the            *)
(* specification's own rules; every value the implementation reports       *)
(* (assertion level, frame ids, index of the frame being simplified,       *)
(* early return, conflict frame, engine ok flag) is compared with it.      *)
(* Semantic guard: a frame flagged "unsat" must have an unsatisfiable      *)
(* prefix - the kernel evaluates candidate models of the assertions of     *)
(* frames 0..k (never trusts them).                                        *)
(* An event that no rule of the machine allows at that point (a push in    *)
(* the middle of check(), a give outside simplifyFormulas) rejects the     *)
(* trace.                                                                  *)
(***************************************************************************)
EXTENDS Sat, Json, IOUtils

Tr == ndJsonDeserialize(IOEnv.TRACE)

VARIABLES frames, nextId, fns, db, ok, cf, status, pc, st, ans,   \* MainSolver
          tt, dom, l, viol, run

NoMods(f) == {}
MS == INSTANCE MainSolver WITH Formulas <- {}, AllModels <- {}, Mods <- NoMods, SoundConflictFrame <- TRUE

vars == <<frames, nextId, fns, db, ok, cf, status, pc, st, ans, tt, dom, l, viol, run>>
Ev == Tr[l]

V(why) == [p |-> "C04", l |-> l, why |-> why, sid |-> run.sid, cfg |-> run.cfg, kind |-> run.kind]
Note(vs) == /\ \A v \in vs : PrintT("@@VIOL " \o ToJson(v))
            /\ viol' = viol + Cardinality(vs) /\ TLCSet(2, l)
If(c, v) == IF c THEN {v} ELSE {}
Step == l' = l + 1
M(s) == V([m |-> s])

Fresh == /\ frames = << MS!NewFrame(0, FALSE) >> /\ nextId = 1 /\ fns = 0 /\ db = {}
         /\ ok = TRUE /\ cf = 0 /\ status = "undef" /\ pc = "idle" /\ st = "undef" /\ ans = "none"
FreshNext == /\ frames' = << MS!NewFrame(0, FALSE) >> /\ nextId' = 1 /\ fns' = 0 /\ db' = {}
             /\ ok' = TRUE /\ cf' = 0 /\ status' = "undef" /\ pc' = "idle" /\ st' = "undef" /\ ans' = "none"

Init == /\ Fresh /\ tt = <<>> /\ dom = <<>> /\ l = 1 /\ viol = 0
        /\ run = [sid |-> "", cfg |-> "", kind |-> ""] /\ TLCSet(2, 0)

TrFam == /\ Ev.e = "Fam" /\ Step /\ tt' = Ev.tt /\ dom' = Ev.dom /\ FreshNext
         /\ run' = [sid |-> "", cfg |-> "", kind |-> ""] /\ viol' = viol /\ TLCSet(2, l)
TrRun == /\ Ev.e = "Run" /\ Step /\ run' = [sid |-> Ev.sid, cfg |-> Ev.cfg, kind |-> Ev.kind]
         /\ FreshNext /\ UNCHANGED <<tt, dom>> /\ viol' = viol /\ TLCSet(2, l)

TrPush == /\ Ev.e = "push" /\ Step /\ pc = "idle" /\ MS!DoPush /\ ans' = "none"
          /\ UNCHANGED <<tt, dom, run>> /\ Note({})
\* the hook fires only for a pop that is carried out (level > 0)
TrPop  == /\ Ev.e = "pop" /\ Step /\ pc = "idle" /\ MS!DoPop /\ ans' = "none"
          /\ UNCHANGED <<tt, dom, run>> /\ Note({})
TrInsert ==
  /\ Ev.e = "insert" /\ Step /\ pc = "idle" /\ MS!DoInsert(Ev.t) /\ ans' = "none"
  /\ UNCHANGED <<tt, dom, run>>
  /\ Note(If(Ev.level # MS!Level, V([m |-> "assertion level", impl |-> Ev.level, spec |-> MS!Level])) \cup
          If(Ev.fid # MS!Top.id, V([m |-> "id of the top frame", impl |-> Ev.fid, spec |-> MS!Top.id])))

\* a frame event while idle is the first iteration of simplifyFormulas: check() passed the early return
TrFrame ==
  /\ Ev.e = "frame" /\ Step
  /\ pc \in {"idle", "simp"} /\ (pc = "simp" => st = "undef")
  /\ Ev.idx < Len(frames)
  /\ fns' = Ev.idx + 1                       \* follow the implementation; compare with DoFrameAdvance below
  /\ pc' = "simp" /\ st' = "undef" /\ status' = "undef" /\ ans' = "none"
  /\ UNCHANGED <<frames, nextId, db, ok, cf, tt, dom, run>>
  /\ Note(If(pc = "idle" /\ MS!Top.unsat, M("simplifyFormulas runs although the top frame is flagged unsat")) \cup
          If(Ev.idx # fns, V([m |-> "frame simplified out of order", impl |-> Ev.idx, spec |-> fns])) \cup
          If(Ev.id # frames[Ev.idx + 1].id, V([m |-> "frame id", impl |-> Ev.id, spec |-> frames[Ev.idx + 1].id])))
TrGive ==
  /\ Ev.e = "give" /\ Step /\ pc = "simp" /\ fns >= 1
  /\ MS!DoGive(Ev.id, Ev.root) /\ ans' = "none"
  /\ UNCHANGED <<frames, nextId, fns, ok, cf, status, pc, st, tt, dom, run>>
  /\ Note(If(Ev.id # frames[fns].id, V([m |-> "root given under another frame's id", impl |-> Ev.id, spec |-> frames[fns].id])))

AssertedUpTo(k) == UNION { { frames[i + 1].fs[j] : j \in 1 .. Len(frames[i + 1].fs) } : i \in 0 .. k }
\* frames k.. are flagged unsat now: the prefix 0..k must not have a model
FlagSound(k) == If(k <= MS!Level /\ CandWitness(tt, AssertedUpTo(k), <<>>, Ev.h),
                   V([m |-> "frame flagged unsat although the frames up to it are satisfiable", frame |-> k]))
Common == If(Ev.level # MS!Level, V([m |-> "assertion level", impl |-> Ev.level, spec |-> MS!Level]))

TrCheckEarly ==
  /\ Ev.e = "check" /\ Ev.early /\ Step /\ pc = "idle"
  /\ MS!DoCheckEarly /\ ans' = "unsat" /\ UNCHANGED <<tt, dom, run>>
  /\ Note(Common \cup If(~MS!Top.unsat, M("early unsat although the top frame is not flagged")))
\* simplifyFormulas left its loop with s_False: rememberUnsatFrame(fns - 1)
TrCheckSimpUnsat ==
  /\ Ev.e = "check" /\ ~Ev.early /\ ~Ev.solved /\ Step /\ pc = "simp" /\ fns >= 1
  /\ frames' = MS!MarkUnsat(frames, fns - 1) /\ pc' = "idle" /\ status' = "unsat" /\ st' = "unsat" /\ ans' = "unsat"
  /\ ok' = Ev.ok
  /\ UNCHANGED <<nextId, fns, db, cf, tt, dom, run>>
  /\ Note(Common \cup If(Ev.ret # "unsat", M("simplifyFormulas reported a conflict but check did not answer unsat")) \cup
          If(Ev.ok /\ frames[fns].id = 0, M("conflict among unguarded clauses but the engine is still ok")) \cup
          FlagSound(fns - 1))
TrCheckSolved ==
  /\ Ev.e = "check" /\ ~Ev.early /\ Ev.solved /\ Step
  /\ pc \in {"idle", "simp"} /\ (pc = "simp" => st = "undef")
  /\ pc' = "idle" /\ st' = "undef" /\ status' = Ev.ret /\ ans' = Ev.ret
  /\ IF Ev.ret = "unsat"
     THEN /\ frames' = MS!MarkUnsat(frames, IF Ev.cf <= MS!Level THEN Ev.cf ELSE MS!Level)
          /\ ok' = FALSE /\ cf' = Ev.cf
     ELSE UNCHANGED <<frames, ok, cf>>
  /\ UNCHANGED <<nextId, fns, db, tt, dom, run>>
  /\ Note(Common \cup
          If(pc = "idle" /\ MS!Top.unsat, M("solve runs although the top frame is flagged unsat")) \cup
          If(fns # Len(frames), V([m |-> "solve runs with unsimplified frames", spec |-> fns])) \cup
          If(~ok, M("solve runs on a dead engine")) \cup
          If(Ev.ok # (Ev.ret # "unsat"), V([m |-> "engine ok flag after solve", impl |-> Ev.ok, ret |-> Ev.ret])) \cup
          (IF Ev.ret = "unsat"
           THEN If(Ev.cf > MS!Level, V([m |-> "conflict frame above the assertion level", impl |-> Ev.cf])) \cup FlagSound(Ev.cf)
           ELSE {}))

TrOther ==
  /\ Ev.e \in {"Exit"} /\ Step /\ UNCHANGED <<frames, nextId, fns, db, ok, cf, status, pc, st, ans, tt, dom, run>> /\ Note({})

Next == /\ l <= Len(Tr)
        /\ \/ TrFam \/ TrRun \/ TrPush \/ TrPop \/ TrInsert \/ TrFrame \/ TrGive
           \/ TrCheckEarly \/ TrCheckSimpUnsat \/ TrCheckSolved \/ TrOther
Spec == Init /\ [][Next]_vars
\* the design invariants that do not need semantics, on every state of every replayed execution
Structural == MS!IdsIncrease /\ MS!UnsatUpClosed /\ fns <= Len(frames)
Accepted ==
  IF TLCGet("stats").diameter = Len(Tr) + 1 THEN TRUE
  ELSE PrintT("@@REJECTED " \o ToString(TLCGet(2) + 1)) /\ FALSE
=============================================================================
