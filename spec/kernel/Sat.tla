-------------------------------- MODULE Sat --------------------------------
(***************************************************************************)
(* Semantic kernel, part 2: three-valued satisfiability of a finite set F  *)
(* of Boolean terms of a term table.                                       *)
(*                                                                         *)
(*  "sat"     only with a witness: an interpretation under which Eval      *)
(*            makes every member of F true.  Witnesses come from candidate *)
(*            models (hints: models printed by the solver under any        *)
(*            configuration, or proposed by the harness) and from the      *)
(*            kernel's own search over a finite grid of values.  Hints are *)
(*            never trusted, only evaluated.                               *)
(*  "unsat"   only by exhaustion of a grid that provably covers every      *)
(*            interpretation that matters: all symbols of F are nullary,   *)
(*            Boolean ones range over {true,false}, and every numeric one  *)
(*            is an integer whose bounds lo <= x <= hi are themselves      *)
(*            members of F and whose grid contains lo..hi.                 *)
(*            Outside this fragment: Refute!Refute (lazy SMT by enumeration *)
(*            with Fourier-Motzkin and congruence-closure relaxations).    *)
(*  "unknown" otherwise.  Monitors never raise on "unknown".               *)
(***************************************************************************)
EXTENDS Refute

\* dom : sequence of [nm |-> symbol, s |-> sort, vals |-> <<constant term ids>>]
\*       one entry per nullary symbol the search may vary
\* base: interpretation of everything that is fixed (user define-funs)

DomNames(dom) == { dom[i].nm : i \in DOMAIN dom }
DomOf(dom, x) == dom[CHOOSE i \in DOMAIN dom : dom[i].nm = x]

AsInterp(g) == [x \in DOMAIN g |-> [p |-> <<>>, b |-> g[x]]]

\* symbols F depends on, through the fixed definitions in base
RECURSIVE SymClosure(_, _, _, _)
SymClosure(tt, todo, seen, base) ==
  IF todo = {} THEN seen
  ELSE LET x == CHOOSE y \in todo : TRUE
           new == IF x \in DOMAIN base
                  THEN (FreeSyms(tt, base[x].b) \ SeqRange(base[x].p)) \ (seen \cup {x})
                  ELSE {}
       IN SymClosure(tt, (todo \ {x}) \cup new, seen \cup {x}, base)

SymsOf(tt, F, base) ==
  SymClosure(tt, UNION { FreeSyms(tt, f) : f \in F }, {}, base)

\* symbols that need a value from a candidate model
OpenSyms(tt, F, base) == SymsOf(tt, F, base) \ DOMAIN base

\* a candidate (sequence of [nm,p,b]) is usable if it defines every open symbol
Usable(tt, F, base, m) == OpenSyms(tt, F, base) \subseteq { m[i].nm : i \in DOMAIN m }

HintWitness(tt, F, base, hints) ==
  \E h \in DOMAIN hints :
     /\ Usable(tt, F, base, hints[h])
     /\ Holds(tt, F, Over(base, InterpOf(hints[h])))

\* ---- is the grid complete for F ? -------------------------------------
IsConst(tt, t) == tt[t].k = "n" /\ tt[t].d = 1
IsSym(tt, t, x) == tt[t].k = "v" /\ tt[t].nm = x

\* f is literally  c <= x  or  x >= c   (lower)  /  x <= c  or  c >= x  (upper)
LowerOf(tt, f, x) ==
  LET r == tt[f] IN
  IF r.k = "a" /\ Len(r.a) = 2 /\ r.op = "<=" /\ IsConst(tt, r.a[1]) /\ IsSym(tt, r.a[2], x)
  THEN {tt[r.a[1]].n}
  ELSE IF r.k = "a" /\ Len(r.a) = 2 /\ r.op = ">=" /\ IsSym(tt, r.a[1], x) /\ IsConst(tt, r.a[2])
  THEN {tt[r.a[2]].n} ELSE {}
UpperOf(tt, f, x) ==
  LET r == tt[f] IN
  IF r.k = "a" /\ Len(r.a) = 2 /\ r.op = "<=" /\ IsSym(tt, r.a[1], x) /\ IsConst(tt, r.a[2])
  THEN {tt[r.a[2]].n}
  ELSE IF r.k = "a" /\ Len(r.a) = 2 /\ r.op = ">=" /\ IsConst(tt, r.a[1]) /\ IsSym(tt, r.a[2], x)
  THEN {tt[r.a[1]].n} ELSE {}

Covered(tt, F, d) ==
  CASE d.s = "Bool" ->
         \E i, j \in DOMAIN d.vals :
            /\ tt[d.vals[i]].k = "b" /\ tt[d.vals[i]].n = 1
            /\ tt[d.vals[j]].k = "b" /\ tt[d.vals[j]].n = 0
    [] d.s = "Int" ->
         LET los == UNION { LowerOf(tt, f, d.nm) : f \in F }
             his == UNION { UpperOf(tt, f, d.nm) : f \in F }
             have == { tt[d.vals[i]].n : i \in { j \in DOMAIN d.vals : IsConst(tt, d.vals[j]) } }
         IN /\ los # {} /\ his # {}
            /\ \E lo \in los, hi \in his : \A v \in lo..hi : v \in have
    [] OTHER -> FALSE

\* no applications of uninterpreted functions anywhere F reaches
RECURSIVE NoUF(_, _)
NoUF(tt, t) ==
  LET r == tt[t] IN
  IF r.k = "a" \/ r.k = "let"
  THEN (r.k = "let" \/ r.op # "uf") /\ \A i \in DOMAIN r.a : NoUF(tt, r.a[i])
  ELSE TRUE

GridComplete(tt, F, base, dom) ==
  /\ OpenSyms(tt, F, base) \subseteq DomNames(dom)
  /\ \A i \in DOMAIN dom : dom[i].nm \in OpenSyms(tt, F, base) => Covered(tt, F, dom[i])
  /\ \A f \in F : NoUF(tt, f)
  /\ \A x \in (DOMAIN base) \cap SymsOf(tt, F, base) : NoUF(tt, base[x].b)

\* restrict the grid to the symbols F really uses (others are irrelevant)
RelevantDom(tt, F, base, dom) ==
  SelectSeq(dom, LAMBDA d : d.nm \in OpenSyms(tt, F, base))

\* depth-first search of the grid, one symbol at a time (TLC short-circuits \E)
RECURSIVE ExistsGrid(_, _, _, _, _, _)
ExistsGrid(tt, F, base, rd, i, g) ==
  IF i > Len(rd) THEN Holds(tt, F, Over(base, AsInterp(g)))
  ELSE \E v \in SeqRange(rd[i].vals) :
          ExistsGrid(tt, F, base, rd, i + 1, g @@ (rd[i].nm :> v))

GridWitness(tt, F, base, dom) ==
  LET rd == RelevantDom(tt, F, base, dom) IN
  /\ OpenSyms(tt, F, base) \subseteq DomNames(rd)
  /\ ExistsGrid(tt, F, base, rd, 1, <<>>)

\* the Boolean constants are always present in a table written by the harness
TrueId(tt)  == CHOOSE i \in DOMAIN tt : tt[i].k = "b" /\ tt[i].n = 1
FalseId(tt) == CHOOSE i \in DOMAIN tt : tt[i].k = "b" /\ tt[i].n = 0

\* a witness (model evaluated by TLC) exists among the candidates or on the grid
Witness(tt, F, base, hints, dom) ==
  \/ F = {}
  \/ HintWitness(tt, F, base, hints)
  \/ (OpenSyms(tt, F, base) \subseteq DomNames(dom) /\ GridWitness(tt, F, base, dom))
\* candidates only (the monitors that test many sets per event use this one)
CandWitness(tt, F, base, hints) == F = {} \/ HintWitness(tt, F, base, hints)

SatStatus(tt, F, base, hints, dom) ==
  IF F = {} THEN "sat"
  ELSE IF HintWitness(tt, F, base, hints) THEN "sat"
  ELSE IF OpenSyms(tt, F, base) \subseteq DomNames(dom)
       THEN IF GridWitness(tt, F, base, dom) THEN "sat"
            ELSE IF GridComplete(tt, F, base, RelevantDom(tt, F, base, dom)) THEN "unsat"
            ELSE IF Refute(tt, F, TrueId(tt), FalseId(tt)) THEN "unsat" ELSE "unknown"
       ELSE IF Refute(tt, F, TrueId(tt), FalseId(tt)) THEN "unsat" ELSE "unknown"
=============================================================================
