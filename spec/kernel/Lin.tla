-------------------------------- MODULE Lin --------------------------------
(***************************************************************************)
(* Semantic kernel, part 3: linear forms.  A linear form is                *)
(*     [c |-> constant, m |-> function from leaf term to coefficient]      *)
(* with rationals as in Terms.  Leaves are the maximal non-arithmetic      *)
(* subterms (variables, applications of uninterpreted functions, ite,      *)
(* select, div, mod ...), identified by their index in the term table, so  *)
(* syntactically equal leaves are the same leaf (the table is hash-consed).*)
(* Used to check Farkas certificates: a positive combination of the        *)
(* inequalities in which every leaf cancels and the constant is absurd.    *)
(***************************************************************************)
EXTENDS Terms

LZero == [c |-> <<0, 1>>, m |-> <<>>]
LConst(q) == [c |-> q, m |-> <<>>]
LLeaf(t) == [c |-> <<0, 1>>, m |-> (t :> <<1, 1>>)]
LCoef(f, t) == IF t \in DOMAIN f.m THEN f.m[t] ELSE <<0, 1>>
LAdd(f, g) == [c |-> QAdd(f.c, g.c),
               m |-> [t \in (DOMAIN f.m) \cup (DOMAIN g.m) |-> QAdd(LCoef(f, t), LCoef(g, t))]]
LScale(q, f) == [c |-> QMul(q, f.c), m |-> [t \in DOMAIN f.m |-> QMul(q, f.m[t])]]
LNeg(f) == LScale(<<-1, 1>>, f)
LIsConst(f) == \A t \in DOMAIN f.m : f.m[t][1] = 0

RECURSIVE LinOf(_, _)
RECURSIVE LinSum(_, _, _)
LinSum(tt, a, i) == IF i > Len(a) THEN LZero ELSE LAdd(LinOf(tt, a[i]), LinSum(tt, a, i + 1))
LinOf(tt, t) ==
  LET r == tt[t] IN
  CASE r.k = "n" -> LConst(<<r.n, r.d>>)
    [] r.k = "a" /\ r.op = "+" -> LinSum(tt, r.a, 1)
    [] r.k = "a" /\ r.op = "-" /\ Len(r.a) = 1 -> LNeg(LinOf(tt, r.a[1]))
    [] r.k = "a" /\ r.op = "-" /\ Len(r.a) > 1 ->
         LAdd(LinOf(tt, r.a[1]), LNeg(LinSum(tt, r.a, 2)))
    [] r.k = "a" /\ r.op = "*" /\ Len(r.a) = 2 /\ tt[r.a[1]].k = "n" ->
         LScale(<<tt[r.a[1]].n, tt[r.a[1]].d>>, LinOf(tt, r.a[2]))
    [] r.k = "a" /\ r.op = "*" /\ Len(r.a) = 2 /\ tt[r.a[2]].k = "n" ->
         LScale(<<tt[r.a[2]].n, tt[r.a[2]].d>>, LinOf(tt, r.a[1]))
    [] r.k = "a" /\ r.op = "to_real" -> LinOf(tt, r.a[1])
    [] OTHER -> LLeaf(t)

\* An arithmetic literal (atom t with polarity s) as  [f |-> form, strict |-> BOOLEAN]
\* meaning  f >= 0  or  f > 0.  Returns [ok |-> FALSE] for atoms that are not
\* binary comparisons.  int: the atom compares integer terms, so the negation of
\* a non-strict bound is tightened by one (needs integral coefficients).
IntegralForm(f) == f.c[2] = 1 /\ \A t \in DOMAIN f.m : f.m[t][2] = 1
AsGeq(tt, t, s, int) ==
  LET r == tt[t] IN
  IF ~(r.k = "a" /\ r.op \in {"<=", "<", ">=", ">"} /\ Len(r.a) = 2)
  THEN [ok |-> FALSE]
  ELSE LET x == LinOf(tt, r.a[1])
           y == LinOf(tt, r.a[2])
           \* normalise to  lo <= hi  or  lo < hi
           lo == IF r.op \in {"<=", "<"} THEN x ELSE y
           hi == IF r.op \in {"<=", "<"} THEN y ELSE x
           strictAtom == r.op \in {"<", ">"}
           d == LAdd(hi, LNeg(lo))          \* atom:  d >= 0  (d > 0 if strict)
       IN IF s
          THEN [ok |-> TRUE, f |-> d, strict |-> strictAtom]
          ELSE \* negation:  -d > 0  (or -d >= 0 if the atom was strict)
               IF int /\ ~strictAtom /\ IntegralForm(d)
               THEN [ok |-> TRUE, f |-> LAdd(LNeg(d), LConst(<<-1, 1>>)), strict |-> FALSE]
               ELSE [ok |-> TRUE, f |-> LNeg(d), strict |-> ~strictAtom]

\* lits: sequence of [t, s, int]; coefs: sequence of rationals <<n,d>>
RECURSIVE FarkasSum(_, _, _, _)
FarkasSum(tt, lits, coefs, i) ==
  IF i > Len(lits) THEN LZero
  ELSE LAdd(LScale(coefs[i], AsGeq(tt, lits[i].t, lits[i].s, lits[i].int).f),
            FarkasSum(tt, lits, coefs, i + 1))

FarkasShapeOK(tt, lits, coefs) ==
  /\ Len(lits) = Len(coefs) /\ Len(lits) > 0
  /\ \A i \in DOMAIN lits : AsGeq(tt, lits[i].t, lits[i].s, lits[i].int).ok
FarkasPositive(coefs) == \A i \in DOMAIN coefs : coefs[i][1] > 0 /\ coefs[i][2] > 0
FarkasCancels(tt, lits, coefs) == LIsConst(FarkasSum(tt, lits, coefs, 1))
FarkasAbsurd(tt, lits, coefs) ==
  LET S == FarkasSum(tt, lits, coefs, 1)
      anyStrict == \E i \in DOMAIN lits : AsGeq(tt, lits[i].t, lits[i].s, lits[i].int).strict
  IN S.c[1] < 0 \/ (S.c[1] = 0 /\ anyStrict)
=============================================================================
