------------------------------- MODULE Refute -------------------------------
(***************************************************************************)
(* Semantic kernel, part 4: refutations.                                   *)
(*                                                                         *)
(* TUnsat(tt, lits)  - a conjunction of theory literals is unsatisfiable.  *)
(*   Two independent relaxations, each sound on its own:                   *)
(*   * arithmetic: every maximal non-arithmetic subterm is a free rational *)
(*     variable (Lin!LinOf); the comparisons are decided by Fourier-       *)
(*     Motzkin elimination with exact rationals; integer atoms tighten     *)
(*     strict bounds; disequalities are ignored (a relaxation);            *)
(*   * equality: every function symbol, interpreted or not, is             *)
(*     uninterpreted; congruence closure over the subterms; a conflict is  *)
(*     an asserted disequality / distinct inside one class, or true and    *)
(*     false in one class.                                                 *)
(*   TRUE means definitely unsatisfiable.  FALSE means nothing.            *)
(*                                                                         *)
(* Refute(tt, F) - a finite set of let-free formulas is unsatisfiable:     *)
(*   every Boolean valuation of its atoms either falsifies the Boolean     *)
(*   skeleton or selects a literal set with TUnsat (lazy SMT by            *)
(*   enumeration; ite terms are resolved under the valuation).             *)
(***************************************************************************)
EXTENDS Lin

\* ---------------------------------------------------------------- atoms
IsBoolSort(tt, t) == tt[t].s = "Bool"
IsConn(r) == r.k = "a" /\ r.op \in {"not", "and", "or", "xor", "=>"}
\* Boolean structure: connectives, ite/=/distinct over Bool arguments
IsStruct(tt, t) ==
  LET r == tt[t] IN
  \/ IsConn(r)
  \/ r.k = "a" /\ r.op = "ite" /\ r.s = "Bool"
  \/ r.k = "a" /\ r.op \in {"=", "distinct"} /\ IsBoolSort(tt, r.a[1])
  \/ r.k = "b"

RECURSIVE AtomsOf(_, _)
\* all atoms below t, including those inside conditions of non-Boolean ite terms
AtomsOf(tt, t) ==
  LET r == tt[t]
      below == UNION { AtomsOf(tt, r.a[i]) : i \in DOMAIN r.a } IN
  IF r.k = "b" THEN {}
  ELSE IF r.s = "Bool" /\ ~IsStruct(tt, t) THEN {t} \cup below
  ELSE below

RECURSIVE HasLet(_, _)
HasLet(tt, t) == tt[t].k = "let" \/ \E i \in DOMAIN tt[t].a : HasLet(tt, tt[t].a[i])

\* truth value of a Boolean term under a valuation of the atoms
RECURSIVE BVal(_, _, _)
BVal(tt, t, val) ==
  LET r == tt[t]
      B(x) == BVal(tt, x, val) IN
  IF r.k = "b" THEN r.n = 1
  ELSE IF ~IsStruct(tt, t) THEN val[t]
  ELSE CASE r.op = "not" -> ~B(r.a[1])
         [] r.op = "and" -> \A i \in DOMAIN r.a : B(r.a[i])
         [] r.op = "or"  -> \E i \in DOMAIN r.a : B(r.a[i])
         [] r.op = "xor" -> (Cardinality({ i \in DOMAIN r.a : B(r.a[i]) }) % 2) = 1
         [] r.op = "=>"  -> (\E i \in 1..(Len(r.a) - 1) : ~B(r.a[i])) \/ B(r.a[Len(r.a)])
         [] r.op = "ite" -> IF B(r.a[1]) THEN B(r.a[2]) ELSE B(r.a[3])
         [] r.op = "="   -> \A i \in 1..(Len(r.a) - 1) : B(r.a[i]) = B(r.a[i + 1])
         [] r.op = "distinct" -> \A i, j \in DOMAIN r.a : i < j => B(r.a[i]) # B(r.a[j])

\* ------------------------------------------------- arithmetic relaxation
\* linear form with ite resolved under val (val = <<>> means: ite is a leaf)
RECURSIVE LinV(_, _, _)
RECURSIVE LinVSum(_, _, _, _)
LinVSum(tt, a, i, val) == IF i > Len(a) THEN LZero ELSE LAdd(LinV(tt, a[i], val), LinVSum(tt, a, i + 1, val))
LinV(tt, t, val) ==
  LET r == tt[t] IN
  CASE r.k = "n" -> LConst(<<r.n, r.d>>)
    [] r.k = "a" /\ r.op = "+" -> LinVSum(tt, r.a, 1, val)
    [] r.k = "a" /\ r.op = "-" /\ Len(r.a) = 1 -> LNeg(LinV(tt, r.a[1], val))
    [] r.k = "a" /\ r.op = "-" /\ Len(r.a) > 1 -> LAdd(LinV(tt, r.a[1], val), LNeg(LinVSum(tt, r.a, 2, val)))
    [] r.k = "a" /\ r.op = "*" /\ Len(r.a) = 2 /\ tt[r.a[1]].k = "n" ->
         LScale(<<tt[r.a[1]].n, tt[r.a[1]].d>>, LinV(tt, r.a[2], val))
    [] r.k = "a" /\ r.op = "*" /\ Len(r.a) = 2 /\ tt[r.a[2]].k = "n" ->
         LScale(<<tt[r.a[2]].n, tt[r.a[2]].d>>, LinV(tt, r.a[1], val))
    [] r.k = "a" /\ r.op = "ite" /\ val # <<>> ->
         IF BVal(tt, r.a[1], val) THEN LinV(tt, r.a[2], val) ELSE LinV(tt, r.a[3], val)
    [] OTHER -> LLeaf(t)

\* a constraint is [f |-> linear form, strict |-> BOOLEAN] meaning f >= 0 / f > 0
Geq(f) == [f |-> f, strict |-> FALSE]
Gt(f)  == [f |-> f, strict |-> TRUE]
IsIntTerm(tt, t) == tt[t].s = "Int"
Integral(f) == f.c[2] = 1 /\ \A x \in DOMAIN f.m : f.m[x][2] = 1

\* constraints contributed by literal (atom t, polarity s); {} if none
ArithCons(tt, t, s, val) ==
  LET r == tt[t] IN
  IF r.k # "a" \/ Len(r.a) # 2 THEN {}
  ELSE IF r.op \in {"<=", "<", ">=", ">"} THEN
    LET x == LinV(tt, r.a[1], val)
        y == LinV(tt, r.a[2], val)
        lo == IF r.op \in {"<=", "<"} THEN x ELSE y
        hi == IF r.op \in {"<=", "<"} THEN y ELSE x
        sa == r.op \in {"<", ">"}
        d == LAdd(hi, LNeg(lo))                       \* atom: d >= 0, or d > 0 when strict
        int == IsIntTerm(tt, r.a[1]) /\ Integral(d)
        tight(f) == Geq(LAdd(f, LConst(<<-1, 1>>)))   \* f > 0 over integers is f - 1 >= 0
    IN IF s THEN (IF sa THEN (IF int THEN {tight(d)} ELSE {Gt(d)}) ELSE {Geq(d)})
       ELSE (IF sa THEN {Geq(LNeg(d))} ELSE (IF int THEN {tight(LNeg(d))} ELSE {Gt(LNeg(d))}))
  ELSE IF r.op = "=" /\ tt[r.a[1]].s \in {"Int", "Real"} /\ s THEN
    LET d == LAdd(LinV(tt, r.a[1], val), LNeg(LinV(tt, r.a[2], val))) IN {Geq(d), Geq(LNeg(d))}
  ELSE {}

\* Fourier-Motzkin: eliminate one variable at a time; exact rationals
CoefOf(c, x) == LCoef(c.f, x)
VarsOf(cs) == UNION { { x \in DOMAIN c.f.m : c.f.m[x][1] # 0 } : c \in cs }
Absurd(c) == LIsConst(c.f) /\ (c.f.c[1] < 0 \/ (c.f.c[1] = 0 /\ c.strict))
\* normalise a form so that equal constraints are equal values (drop zero coefficients)
Clean(f) == [c |-> f.c, m |-> [x \in { y \in DOMAIN f.m : f.m[y][1] # 0 } |-> f.m[x]]]
Combine(p, n, x) ==    \* p has positive coefficient a on x, n negative b: p/a + n/(-b) eliminates x
  LET a == CoefOf(p, x)
      b == CoefOf(n, x)      \* b < 0
  IN [f |-> Clean(LAdd(LScale(<<a[2], a[1]>>, p.f), LScale(<<-b[2], b[1]>>, n.f))), strict |-> p.strict \/ n.strict]
RECURSIVE FMUnsat(_, _)
FMUnsat(cs, fuel) ==
  IF \E c \in cs : Absurd(c) THEN TRUE
  ELSE IF VarsOf(cs) = {} \/ fuel = 0 \/ Cardinality(cs) > 40 THEN FALSE
  ELSE LET x == CHOOSE y \in VarsOf(cs) :
                  \A z \in VarsOf(cs) :
                     Cardinality({ c \in cs : CoefOf(c, y)[1] > 0 }) * Cardinality({ c \in cs : CoefOf(c, y)[1] < 0 })
                     <= Cardinality({ c \in cs : CoefOf(c, z)[1] > 0 }) * Cardinality({ c \in cs : CoefOf(c, z)[1] < 0 })
           pos == { c \in cs : CoefOf(c, x)[1] > 0 }
           neg == { c \in cs : CoefOf(c, x)[1] < 0 }
           rest == { c \in cs : CoefOf(c, x)[1] = 0 }
       IN FMUnsat(rest \cup { Combine(p, n, x) : p \in pos, n \in neg }, fuel - 1)

\* lits: set of [t |-> atom, s |-> polarity]
ArithUnsat(tt, lits, val) ==
  LET cs == UNION { ArithCons(tt, q.t, q.s, val) : q \in lits } IN
  cs # {} /\ FMUnsat({ [f |-> Clean(c.f), strict |-> c.strict] : c \in cs }, 8)

\* --------------------------------------------------- equality relaxation
RECURSIVE SubTerms(_, _)
SubTerms(tt, t) == {t} \cup UNION { SubTerms(tt, tt[t].a[i]) : i \in DOMAIN tt[t].a }

\* a partition as a function term -> representative (the least member of its class)
MergeCls(rep, a, b) ==
  LET ra == rep[a]
      rb == rep[b]
      lo == IF ra < rb THEN ra ELSE rb
      hi == IF ra < rb THEN rb ELSE ra
  IN [t \in DOMAIN rep |-> IF rep[t] = hi THEN lo ELSE rep[t]]
SameSym(tt, s, t) ==
  /\ tt[s].k = "a" /\ tt[t].k = "a" /\ tt[s].op = tt[t].op /\ tt[s].nm = tt[t].nm
  /\ Len(tt[s].a) = Len(tt[t].a) /\ Len(tt[s].a) > 0 /\ tt[s].s = tt[t].s
Congruent(tt, rep, s, t) ==
  SameSym(tt, s, t) /\ rep[s] # rep[t] /\ \A i \in DOMAIN tt[s].a : rep[tt[s].a[i]] = rep[tt[t].a[i]]
RECURSIVE Close(_, _)
Close(tt, rep) ==
  IF \E s, t \in DOMAIN rep : s < t /\ Congruent(tt, rep, s, t)
  THEN LET p == CHOOSE q \in (DOMAIN rep) \X (DOMAIN rep) : q[1] < q[2] /\ Congruent(tt, rep, q[1], q[2])
       IN Close(tt, MergeCls(rep, p[1], p[2]))
  ELSE rep
RECURSIVE MergeAll(_, _)
MergeAll(rep, pairs) ==
  IF pairs = {} THEN rep
  ELSE LET p == CHOOSE q \in pairs : TRUE IN MergeAll(MergeCls(rep, p[1], p[2]), pairs \ {p})

\* equalities / disequalities contributed by a literal.  T, F: ids of the constants true, false
EqPairs(tt, t, s, val, T, F) ==
  LET r == tt[t] IN
  IF r.k = "a" /\ r.op = "=" /\ ~IsBoolSort(tt, r.a[1])
  THEN (IF s THEN { <<r.a[i], r.a[i + 1]>> : i \in 1..(Len(r.a) - 1) } ELSE {})
  ELSE IF r.k = "a" /\ r.op = "distinct" THEN {}
  ELSE IF r.k = "a" /\ r.op \in {"<=", "<", ">=", ">"} THEN {}
  ELSE {<<t, IF s THEN T ELSE F>>}                  \* predicates and Boolean variables
NeqPairs(tt, t, s) ==
  LET r == tt[t] IN
  IF r.k = "a" /\ r.op = "=" /\ ~IsBoolSort(tt, r.a[1]) /\ ~s /\ Len(r.a) = 2 THEN {<<r.a[1], r.a[2]>>}
  ELSE IF r.k = "a" /\ r.op = "distinct" /\ s /\ ~IsBoolSort(tt, r.a[1])
  THEN { <<r.a[i], r.a[j]>> : i, j \in DOMAIN r.a } \ { <<r.a[i], r.a[i]>> : i \in DOMAIN r.a }
  ELSE {}
\* non-Boolean ite terms equal their selected branch
ItePairs(tt, U, val) ==
  IF val = <<>> THEN {}
  ELSE { <<t, IF BVal(tt, tt[t].a[1], val) THEN tt[t].a[2] ELSE tt[t].a[3]>> :
           t \in { u \in U : tt[u].k = "a" /\ tt[u].op = "ite" /\ tt[u].s # "Bool" } }
DistinctConsts(tt, U) ==
  { <<s, t>> \in U \X U : s < t /\ tt[s].k = tt[t].k /\ tt[s].k \in {"n", "u"} /\ tt[s].s = tt[t].s }

EqUnsat(tt, lits, val, T, F) ==
  LET U == UNION { SubTerms(tt, q.t) : q \in lits } \cup {T, F}
      rep0 == [t \in U |-> t]
      eqs == UNION { EqPairs(tt, q.t, q.s, val, T, F) : q \in lits } \cup ItePairs(tt, U, val)
      neqs == UNION { NeqPairs(tt, q.t, q.s) : q \in lits } \cup {<<T, F>>} \cup DistinctConsts(tt, U)
      rep == Close(tt, MergeAll(rep0, eqs))
  IN \E p \in neqs : rep[p[1]] = rep[p[2]]

\* T, F: ids of the Boolean constants in tt (the harness always adds them)
TUnsatV(tt, lits, val, T, F) == ArithUnsat(tt, lits, val) \/ EqUnsat(tt, lits, val, T, F)
TUnsat(tt, lits, T, F) == TUnsatV(tt, lits, <<>>, T, F)

\* ------------------------------------------------------------ formulas
LitsOf(atoms, val) == { [t |-> a, s |-> val[a]] : a \in atoms }
Refute(tt, F, T, F0) ==
  /\ F # {} /\ \A f \in F : ~HasLet(tt, f)
  /\ LET atoms == UNION { AtomsOf(tt, f) : f \in F } IN
     /\ Cardinality(atoms) <= 7
     /\ \A val \in [atoms -> BOOLEAN] :
          (\E f \in F : ~BVal(tt, f, val)) \/ TUnsatV(tt, LitsOf(atoms, val), val, T, F0)
=============================================================================
