------------------------------- MODULE BigInt -------------------------------
(***************************************************************************)
(* Arbitrary-precision integers for TLC (whose integers are 32 bit):       *)
(* [neg |-> BOOLEAN, m |-> magnitude], magnitude = sequence of limbs in    *)
(* base 10^4, least significant first, no leading zero limb; zero is       *)
(* [neg |-> FALSE, m |-> <<>>].  Only addition, subtraction, multiplication *)
(* and comparison are defined; quotients, remainders and gcds are checked  *)
(* from certificates (q*d + r = n, s*a + t*b = g) with these operations.   *)
(***************************************************************************)
EXTENDS Integers, Sequences

Base == 10000
BZero == [neg |-> FALSE, m |-> <<>>]
WellFormed(x) == /\ \A i \in DOMAIN x.m : x.m[i] \in 0..(Base - 1)
                 /\ (x.m # <<>> => x.m[Len(x.m)] # 0)
                 /\ (x.m = <<>> => ~x.neg)

RECURSIVE Trim(_)
Trim(m) == IF m = <<>> THEN <<>> ELSE IF m[Len(m)] = 0 THEN Trim(SubSeq(m, 1, Len(m) - 1)) ELSE m
Limb(m, i) == IF i <= Len(m) THEN m[i] ELSE 0
Max(a, b) == IF a > b THEN a ELSE b

\* magnitudes
RECURSIVE MagCmpFrom(_, _, _)
MagCmpFrom(a, b, i) ==     \* compare limbs i, i-1, ..., 1 of equally long magnitudes
  IF i = 0 THEN 0 ELSE IF a[i] < b[i] THEN -1 ELSE IF a[i] > b[i] THEN 1 ELSE MagCmpFrom(a, b, i - 1)
MagCmp(a, b) == IF Len(a) < Len(b) THEN -1 ELSE IF Len(a) > Len(b) THEN 1 ELSE MagCmpFrom(a, b, Len(a))

RECURSIVE MagAddFrom(_, _, _, _)
MagAddFrom(a, b, i, carry) ==
  IF i > Max(Len(a), Len(b)) THEN (IF carry = 0 THEN <<>> ELSE <<carry>>)
  ELSE LET s == Limb(a, i) + Limb(b, i) + carry IN <<s % Base>> \o MagAddFrom(a, b, i + 1, s \div Base)
MagAdd(a, b) == MagAddFrom(a, b, 1, 0)

RECURSIVE MagSubFrom(_, _, _, _)
MagSubFrom(a, b, i, borrow) ==     \* a >= b
  IF i > Len(a) THEN <<>>
  ELSE LET d == Limb(a, i) - Limb(b, i) - borrow IN
       IF d < 0 THEN <<d + Base>> \o MagSubFrom(a, b, i + 1, 1) ELSE <<d>> \o MagSubFrom(a, b, i + 1, 0)
MagSub(a, b) == Trim(MagSubFrom(a, b, 1, 0))

RECURSIVE MagMulLimbFrom(_, _, _, _)
MagMulLimbFrom(a, d, i, carry) ==
  IF i > Len(a) THEN (IF carry = 0 THEN <<>> ELSE <<carry>>)
  ELSE LET p == a[i] * d + carry IN <<p % Base>> \o MagMulLimbFrom(a, d, i + 1, p \div Base)
Shift(m, k) == IF m = <<>> THEN <<>> ELSE [i \in 1..k |-> 0] \o m
RECURSIVE MagMulFrom(_, _, _)
MagMulFrom(a, b, j) ==
  IF j > Len(b) THEN <<>>
  ELSE MagAdd(Shift(Trim(MagMulLimbFrom(a, b[j], 1, 0)), j - 1), MagMulFrom(a, b, j + 1))
MagMul(a, b) == IF a = <<>> \/ b = <<>> THEN <<>> ELSE Trim(MagMulFrom(a, b, 1))

\* signed
Mk(neg, m) == [neg |-> neg /\ m # <<>>, m |-> m]
BNeg(x) == Mk(~x.neg, x.m)
BAbs(x) == Mk(FALSE, x.m)
BAdd(x, y) ==
  IF x.neg = y.neg THEN Mk(x.neg, MagAdd(x.m, y.m))
  ELSE IF MagCmp(x.m, y.m) >= 0 THEN Mk(x.neg, MagSub(x.m, y.m)) ELSE Mk(y.neg, MagSub(y.m, x.m))
BSub(x, y) == BAdd(x, BNeg(y))
BMul(x, y) == Mk(x.neg # y.neg, MagMul(x.m, y.m))
BSign(x) == IF x.m = <<>> THEN 0 ELSE IF x.neg THEN -1 ELSE 1
BCmp(x, y) == BSign(BSub(x, y))
BEq(x, y) == x.neg = y.neg /\ x.m = y.m
BIsZero(x) == x.m = <<>>
BOne == [neg |-> FALSE, m |-> <<1>>]
BFromSmall(n) ==   \* |n| < 10^8
  LET a == IF n < 0 THEN -n ELSE n IN
  Mk(n < 0, Trim(<<a % Base, a \div Base>>))

\* rationals as [n |-> BigInt, d |-> BigInt] with d # 0
REq(p, q) == BEq(BMul(p.n, q.d), BMul(q.n, p.d))
RSignD(p) == BSign(p.d)
RCmp(p, q) ==       \* sign of p - q, denominators positive
  BCmp(BMul(p.n, q.d), BMul(q.n, p.d))
RAdd(p, q) == [n |-> BAdd(BMul(p.n, q.d), BMul(q.n, p.d)), d |-> BMul(p.d, q.d)]
RSub(p, q) == [n |-> BSub(BMul(p.n, q.d), BMul(q.n, p.d)), d |-> BMul(p.d, q.d)]
RMul(p, q) == [n |-> BMul(p.n, q.n), d |-> BMul(p.d, q.d)]
RDiv(p, q) == [n |-> BMul(p.n, q.d), d |-> BMul(p.d, q.n)]      \* q # 0; sign of d may be negative
RNeg(p) == [n |-> BNeg(p.n), d |-> p.d]
\* canonical form: d > 0 and s*n + t*d = 1 for the certificate (s, t)
Coprime(p, s, t) == BEq(BAdd(BMul(s, p.n), BMul(t, p.d)), BOne)
=============================================================================
