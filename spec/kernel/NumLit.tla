------------------------------- MODULE NumLit -------------------------------
(***************************************************************************)
(* Reference reading of numeric literals, written independently of the     *)
(* solver's readers.  A literal is a sequence of one-character strings.    *)
(*   numeral   [0-9]+        (any number of leading zeros; always decimal) *)
(*   decimal   numeral '.' [0-9]+                                          *)
(*   fraction  [-]numeral '/' numeral, denominator not zero  (OpenSMT's    *)
(*             lexer and API accept this form and a leading '-')           *)
(* ValueOf gives the exact value as a BigInt pair [n, d] (not reduced).    *)
(***************************************************************************)
EXTENDS BigInt, FiniteSets

Digits == {"0", "1", "2", "3", "4", "5", "6", "7", "8", "9"}
DigitVal(c) == CASE c = "0" -> 0 [] c = "1" -> 1 [] c = "2" -> 2 [] c = "3" -> 3 [] c = "4" -> 4
                 [] c = "5" -> 5 [] c = "6" -> 6 [] c = "7" -> 7 [] c = "8" -> 8 [] c = "9" -> 9
AllDigits(s) == s # <<>> /\ \A i \in DOMAIN s : s[i] \in Digits
IsNumeral(s) == AllDigits(s)
Pos(s, c) == IF \E i \in DOMAIN s : s[i] = c THEN CHOOSE i \in DOMAIN s : s[i] = c /\ \A j \in 1..(i - 1) : s[j] # c ELSE 0
Count(s, c) == Cardinality({ i \in DOMAIN s : s[i] = c })
StripSign(s) == IF s # <<>> /\ s[1] = "-" THEN SubSeq(s, 2, Len(s)) ELSE s
Negative(s) == s # <<>> /\ s[1] = "-"

IsDecimal(s) == LET p == Pos(s, ".") IN
  /\ Count(s, ".") = 1 /\ p > 1 /\ p < Len(s)
  /\ IsNumeral(SubSeq(s, 1, p - 1)) /\ AllDigits(SubSeq(s, p + 1, Len(s)))
IsFraction(s) == LET p == Pos(s, "/") IN
  /\ Count(s, "/") = 1 /\ p > 1 /\ p < Len(s)
  /\ IsNumeral(SubSeq(s, 1, p - 1)) /\ IsNumeral(SubSeq(s, p + 1, Len(s)))
  /\ \E i \in (p + 1)..Len(s) : s[i] # "0"
\* strict SMT-LIB literals (no sign) and the signed / fraction forms accepted as single tokens
StrictLiteral(s) == IsNumeral(s) \/ IsDecimal(s)
ExtendedLiteral(s) == LET u == StripSign(s) IN IsNumeral(u) \/ IsDecimal(u) \/ IsFraction(u)

\* value of a digit string as BigInt: Horner scheme in base 10
Ten == [neg |-> FALSE, m |-> <<10>>]
RECURSIVE DigitsVal(_, _, _)
DigitsVal(s, i, acc) == IF i > Len(s) THEN acc
                        ELSE DigitsVal(s, i + 1, BAdd(BMul(acc, Ten), BFromSmall(DigitVal(s[i]))))
NatVal(s) == DigitsVal(s, 1, BZero)
RECURSIVE Pow10(_)
Pow10(k) == IF k = 0 THEN BOne ELSE BMul(Ten, Pow10(k - 1))

ValueOf(s) ==
  LET u == StripSign(s)
      sg(x) == IF Negative(s) THEN BNeg(x) ELSE x IN
  IF IsNumeral(u) THEN [n |-> sg(NatVal(u)), d |-> BOne]
  ELSE IF IsDecimal(u) THEN
    LET p == Pos(u, ".") IN
    [n |-> sg(NatVal(SubSeq(u, 1, p - 1) \o SubSeq(u, p + 1, Len(u)))), d |-> Pow10(Len(u) - p)]
  ELSE LET p == Pos(u, "/") IN
    [n |-> sg(NatVal(SubSeq(u, 1, p - 1))), d |-> NatVal(SubSeq(u, p + 1, Len(u)))]
=============================================================================
