------------------------------- MODULE Terms -------------------------------
(***************************************************************************)
(* Semantic kernel, part 1: the term language and its SMT-LIB meaning.     *)
(*                                                                         *)
(* A term table  tt  is a sequence of records, one per term; a term is     *)
(* the index of its record.  Every record has the same fields:             *)
(*   k  : "b" Boolean constant (n = 1 true, n = 0 false)                   *)
(*        "n" numeric constant n/d (d > 0, gcd(n,d) = 1)                   *)
(*        "u" value of an uninterpreted sort, named nm  (as @k U)          *)
(*        "v" symbol nm of sort s: declared constant, bound variable or    *)
(*            formal parameter                                             *)
(*        "a" application of op to the terms a; op is a builtin or "uf",   *)
(*            in which case nm is the function symbol                      *)
(*        "let" a = <<v1,...,vk,body>>, bn = <<x1,...,xk>> (parallel let)  *)
(*   s  : sort name ("Bool", "Int", "Real", a user sort, "(Array I E)")    *)
(* Arguments always precede the term (a[i] < id): the table is a DAG.      *)
(*                                                                         *)
(* An interpretation I maps a symbol name to a definition                  *)
(*    [p |-> <<formal parameter names>>, b |-> body term].                 *)
(* User define-funs, models printed by the solver, candidate models        *)
(* supplied as hints and the kernel's own grid points all have this one    *)
(* shape, so a single evaluator decides all of them.                       *)
(*                                                                         *)
(* Values: Bool -> BOOLEAN; Int/Real -> <<n,d>> normalised; uninterpreted  *)
(* sorts -> the value's name (a string); arrays -> <<"arr", default, m>>   *)
(* with m a function on the finitely many indices whose element differs    *)
(* from the default (index sorts are infinite, so this is extensional).    *)
(***************************************************************************)
EXTENDS Integers, Sequences, FiniteSets, TLC

Abs(x) == IF x < 0 THEN -x ELSE x

RECURSIVE Gcd(_, _)
Gcd(a, b) == IF b = 0 THEN Abs(a) ELSE Gcd(b, a % Abs(b))

\* ---- exact rationals as normalised pairs ------------------------------
Q(n, d) == LET g == Gcd(n, d)
               sg == IF d < 0 THEN -1 ELSE 1
           IN <<sg * (n \div g), sg * (d \div g)>>
QInt(n)    == <<n, 1>>
QAdd(x, y) == Q(x[1] * y[2] + y[1] * x[2], x[2] * y[2])
QNeg(x)    == <<-x[1], x[2]>>
QSub(x, y) == QAdd(x, QNeg(y))
QMul(x, y) == Q(x[1] * y[1], x[2] * y[2])
QDiv(x, y) == Q(x[1] * y[2], x[2] * y[1])          \* y # 0
QLe(x, y)  == x[1] * y[2] <= y[1] * x[2]
QLt(x, y)  == x[1] * y[2] <  y[1] * x[2]
QIsInt(x)  == x[2] = 1
QFloor(x)  == x[1] \div x[2]                        \* TLC's \div is floor

\* SMT-LIB Euclidean division and remainder on integers, n # 0
EDiv(m, n) == IF n > 0 THEN m \div n ELSE -(m \div (-n))
EMod(m, n) == m - n * EDiv(m, n)

\* ---- array values -----------------------------------------------------
ArrConst(dflt)     == <<"arr", dflt, <<>>>>
ArrSelect(arr, i)  == IF i \in DOMAIN arr[3] THEN arr[3][i] ELSE arr[2]
ArrStore(arr, i, e) ==
   LET m == arr[3] IN
   IF e = arr[2]
   THEN <<"arr", arr[2], [j \in (DOMAIN m) \ {i} |-> m[j]]>>
   ELSE <<"arr", arr[2], [j \in (DOMAIN m) \cup {i} |-> IF j = i THEN e ELSE m[j]]>>

\* ---- evaluation -------------------------------------------------------
SeqRange(s) == { s[i] : i \in DOMAIN s }

RECURSIVE Eval(_, _, _, _)
RECURSIVE EvalSum(_, _, _, _, _)
RECURSIVE EvalProd(_, _, _, _, _)
RECURSIVE EvalChain(_, _, _, _, _, _)

\* sum / product of a[i..] ; comparisons chained pairwise (SMT-LIB :chainable)
EvalSum(tt, a, i, I, env) ==
   IF i > Len(a) THEN QInt(0)
   ELSE QAdd(Eval(tt, a[i], I, env), EvalSum(tt, a, i + 1, I, env))
EvalProd(tt, a, i, I, env) ==
   IF i > Len(a) THEN QInt(1)
   ELSE QMul(Eval(tt, a[i], I, env), EvalProd(tt, a, i + 1, I, env))
Cmp(op, x, y) == CASE op = "<=" -> QLe(x, y)
                   [] op = "<"  -> QLt(x, y)
                   [] op = ">=" -> QLe(y, x)
                   [] op = ">"  -> QLt(y, x)
EvalChain(tt, op, a, i, I, env) ==
   IF i >= Len(a) THEN TRUE
   ELSE /\ Cmp(op, Eval(tt, a[i], I, env), Eval(tt, a[i + 1], I, env))
        /\ EvalChain(tt, op, a, i + 1, I, env)

Eval(tt, t, I, env) ==
  LET r == tt[t]
      E(x) == Eval(tt, x, I, env)
  IN
  CASE r.k = "b" -> (r.n = 1)
    [] r.k = "n" -> <<r.n, r.d>>
    [] r.k = "u" -> r.nm
    [] r.k = "v" ->
         IF r.nm \in DOMAIN env THEN env[r.nm]
         ELSE Eval(tt, I[r.nm].b, I, <<>>)            \* nullary definition
    [] r.k = "let" ->
         LET k  == Len(r.bn)
             e2 == [x \in (DOMAIN env) \cup SeqRange(r.bn) |->
                       IF \E i \in 1..k : r.bn[i] = x
                       THEN E(r.a[CHOOSE i \in 1..k : r.bn[i] = x])
                       ELSE env[x]]
         IN Eval(tt, r.a[k + 1], I, e2)
    [] r.k = "a" ->
      LET a == r.a IN
      CASE r.op = "not" -> ~E(a[1])
        [] r.op = "and" -> \A i \in DOMAIN a : E(a[i])
        [] r.op = "or"  -> \E i \in DOMAIN a : E(a[i])
        [] r.op = "xor" -> (Cardinality({ i \in DOMAIN a : E(a[i]) }) % 2) = 1
        [] r.op = "=>"  ->                                 \* right associative
             (\E i \in 1..(Len(a) - 1) : ~E(a[i])) \/ E(a[Len(a)])
        [] r.op = "="   -> \A i \in 1..(Len(a) - 1) : E(a[i]) = E(a[i + 1])
        [] r.op = "distinct" ->
             \A i, j \in DOMAIN a : i < j => E(a[i]) # E(a[j])
        [] r.op = "ite" -> IF E(a[1]) THEN E(a[2]) ELSE E(a[3])
        [] r.op = "+"   -> EvalSum(tt, a, 1, I, env)
        [] r.op = "-"   -> IF Len(a) = 1 THEN QNeg(E(a[1]))
                           ELSE QSub(E(a[1]), EvalSum(tt, a, 2, I, env))
        [] r.op = "*"   -> EvalProd(tt, a, 1, I, env)
        [] r.op = "/"   -> QDiv(E(a[1]), E(a[2]))
        [] r.op = "div" -> QInt(EDiv(E(a[1])[1], E(a[2])[1]))
        [] r.op = "mod" -> QInt(EMod(E(a[1])[1], E(a[2])[1]))
        [] r.op = "abs" -> LET x == E(a[1]) IN <<Abs(x[1]), x[2]>>
        [] r.op = "to_real" -> E(a[1])
        [] r.op = "to_int"  -> QInt(QFloor(E(a[1])))
        [] r.op = "is_int"  -> QIsInt(E(a[1]))
        [] r.op \in {"<=", "<", ">=", ">"} -> EvalChain(tt, r.op, a, 1, I, env)
        [] r.op = "select" -> ArrSelect(E(a[1]), E(a[2]))
        [] r.op = "store"  -> ArrStore(E(a[1]), E(a[2]), E(a[3]))
        [] r.op = "constarr" -> ArrConst(E(a[1]))
        [] r.op = "uf" ->
             LET df == I[r.nm]
                 e2 == [x \in SeqRange(df.p) |->
                          E(a[CHOOSE i \in 1..Len(df.p) : df.p[i] = x])]
             IN Eval(tt, df.b, I, e2)

\* ---- symbols ----------------------------------------------------------
\* free symbols of a term: names of "v" records not bound by an enclosing
\* let, and names of applied uninterpreted functions
RECURSIVE FreeSyms(_, _)
FreeSyms(tt, t) ==
  LET r == tt[t] IN
  CASE r.k = "v"   -> {r.nm}
    [] r.k = "a"   -> (IF r.op = "uf" THEN {r.nm} ELSE {}) \cup
                      UNION { FreeSyms(tt, r.a[i]) : i \in DOMAIN r.a }
    [] r.k = "let" -> LET k == Len(r.bn) IN
                      (FreeSyms(tt, r.a[k + 1]) \ SeqRange(r.bn)) \cup
                      UNION { FreeSyms(tt, r.a[i]) : i \in 1..k }
    [] OTHER       -> {}

\* a model given as a sequence of [nm, p, b] records, as a function on names
InterpOf(m) == [x \in { m[i].nm : i \in DOMAIN m } |->
                   LET i == CHOOSE j \in DOMAIN m : m[j].nm = x
                   IN [p |-> m[i].p, b |-> m[i].b]]

\* union of two interpretations, the left one wins
Over(I, J) == [x \in (DOMAIN I) \cup (DOMAIN J) |-> IF x \in DOMAIN I THEN I[x] ELSE J[x]]

Holds(tt, F, I) == \A f \in F : Eval(tt, f, I, <<>>)
=============================================================================
