----------------------------- MODULE TermStore -----------------------------
(***************************************************************************)
(* Hash-consed term store (PtStore, the Logic constructors): identity discipline.  *)
(* A term is created by Make(op, args) from existing terms; the store      *)
(* returns the identity of an existing structurally equal term or          *)
(* allocates the next identity.  Commutative operators are insensitive to  *)
(* argument order (the constructor normalises it).                         *)
(*   Injective: structure -> identity is a function and is injective       *)
(*   SubtermsFirst: every argument has a smaller identity                  *)
(* The same statements are monitors of Terms_Trace over the identities     *)
(* (PTRef values) observed from the real constructors.                     *)
(***************************************************************************)
EXTENDS Integers, Sequences, FiniteSets, TLC

CONSTANTS Ops, Commutative, MaxTerms

VARIABLES store      \* sequence of [op, args]: identity = index

Leaf == "leaf"
\* canonical argument list of a commutative operator: sorted
Canon(op, args) == IF op \in Commutative THEN SortSeq(args, LAMBDA x, y : x < y) ELSE args
Find(op, args) == { i \in DOMAIN store : store[i].op = op /\ store[i].args = Canon(op, args) }

TSInit == store = <<>>
NewLeaf == /\ Len(store) < MaxTerms
           /\ store' = Append(store, [op |-> Leaf, args |-> <<Len(store) + 1>>])   \* leaves are distinct
Make(op, args) ==
  /\ IF Find(op, args) # {} THEN UNCHANGED store
     ELSE Len(store) < MaxTerms /\ store' = Append(store, [op |-> op, args |-> Canon(op, args)])
TSNext == \/ NewLeaf
          \/ \E op \in Ops, a, b \in DOMAIN store : Make(op, <<a, b>>)
TSSpec == TSInit /\ [][TSNext]_store

Injective == \A i, j \in DOMAIN store : (store[i].op = store[j].op /\ store[i].args = store[j].args) => i = j
SubtermsFirst == \A i \in DOMAIN store : store[i].op # Leaf => \A k \in DOMAIN store[i].args : store[i].args[k] < i
CommutativeShared == \A i, j \in DOMAIN store :
   (store[i].op = store[j].op /\ store[i].op \in Commutative /\ Len(store[i].args) = 2 /\ Len(store[j].args) = 2
    /\ store[i].args[1] = store[j].args[2] /\ store[i].args[2] = store[j].args[1]) => i = j
=============================================================================
