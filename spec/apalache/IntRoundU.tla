----------------------------- MODULE IntRoundU -----------------------------
(***************************************************************************)
(* The integer-rounding facts of IntRound.tla (C27) for EVERY integer      *)
(* dividend / bound / variable value, discharged symbolically by Apalache  *)
(* (the SMT solver reasons over unbounded integers); the divisors and      *)
(* coefficients range over the finite set Divisors, so the arithmetic is   *)
(* linear.  TLC checks the same operators over the box -24..24.            *)
(* The state is one arbitrary choice of integers; every fact is an         *)
(* invariant of the initial states (apalache-mc check --length=0).         *)
(***************************************************************************)
EXTENDS Integers

VARIABLES
  \* @type: Int;
  m,
  \* @type: Int;
  x,
  \* @type: Int;
  y,
  \* @type: Int;
  c,
  \* @type: Int;
  q

Divisors == {-7, -5, -4, -3, -2, -1, 1, 2, 3, 4, 5, 7}

Abs(v) == IF v < 0 THEN -v ELSE v
\* as in kernel/Terms.tla
EDiv(a, n) == IF n > 0 THEN a \div n ELSE -(a \div (-n))
EMod(a, n) == a - n * EDiv(a, n)
FloorQ(a, b) == IF b > 0 THEN a \div b ELSE (-a) \div (-b)
CeilQ(a, b) == -FloorQ(-a, b)

Init == m \in Int /\ x \in Int /\ y \in Int /\ c \in Int /\ q \in Int
Next == UNCHANGED <<m, x, y, c, q>>

EuclidOK == \A n \in Divisors : m = n * EDiv(m, n) + EMod(m, n) /\ 0 <= EMod(m, n) /\ EMod(m, n) < Abs(n)
EuclidUnique == \A n \in Divisors : (n * q <= m /\ m < n * q + Abs(n)) <=> q = EDiv(m, n)
\* x < a/b <=> x <= ceil(a/b) - 1 and x <= a/b <=> x <= floor(a/b), with a = c; comparison of x with the rational c/b
\* cross-multiplied by the sign of b
LtQ(u, a, b) == IF b > 0 THEN u * b < a ELSE u * b > a
LeQ(u, a, b) == IF b > 0 THEN u * b <= a ELSE u * b >= a
StrictTightening == \A b \in Divisors : /\ (LtQ(x, c, b) <=> x <= CeilQ(c, b) - 1)
                                        /\ (LeQ(x, c, b) <=> x <= FloorQ(c, b))
GcdNormalisation == \A a \in { d \in Divisors : d > 0 } : (a * x <= c) <=> (x <= FloorQ(c, a))
DiffNegation == ~(x - y <= c) <=> (y - x <= -c - 1)
All == EuclidOK /\ EuclidUnique /\ StrictTightening /\ GcdNormalisation /\ DiffNegation
=============================================================================
