------------------------------- MODULE Proof -------------------------------
(***************************************************************************)
(* Resolution refutations as printed by get-proof.                         *)
(* A proof is a sequence of nodes, in the order they are bound:            *)
(*   leaf: [id, kind |-> "leaf", lits]          a clause given as literals *)
(*   res : [id, kind |-> "res", first, steps]   a resolution chain         *)
(*         steps = sequence of [c |-> premise name, p |-> pivot atom]      *)
(* A literal is [t |-> atom term, nt |-> term of its negation,             *)
(*               s |-> polarity, fid |-> frame id if the atom is a frame   *)
(*               (activation) variable, else -1].                          *)
(* Clauses are sets of <<atom, polarity>>.                                 *)
(***************************************************************************)
EXTENDS Integers, Sequences, FiniteSets, TLC

Ids(nodes, k) == { nodes[i].id : i \in 1..k }
NodeOf(nodes, name) == nodes[CHOOSE i \in DOMAIN nodes : nodes[i].id = name]
LeafClause(n) == { <<n.lits[i].t, n.lits[i].s>> : i \in DOMAIN n.lits }

\* names are bound before they are used
BoundBeforeUse(nodes) ==
  \A k \in DOMAIN nodes :
     nodes[k].kind = "res" =>
        /\ nodes[k].first \in Ids(nodes, k - 1)
        /\ \A j \in DOMAIN nodes[k].steps : nodes[k].steps[j].c \in Ids(nodes, k - 1)
UniqueNames(nodes) == \A i, j \in DOMAIN nodes : i # j => nodes[i].id # nodes[j].id

\* clause of every node; BadClause when a pivot does not occur with opposite signs
BadClause == {<<-1, TRUE>>}      \* a marker (atom -1 does not exist): the step is not a resolution step
RECURSIVE Chain(_, _, _, _)
Chain(cl, C, steps, j) ==      \* cl: name -> clause (or BadClause)
  IF j > Len(steps) THEN C
  ELSE LET D == cl[steps[j].c]
           p == steps[j].p IN
       IF C = BadClause \/ D = BadClause THEN BadClause
       ELSE IF <<p, TRUE>> \in C /\ <<p, FALSE>> \in D
            THEN Chain(cl, (C \ {<<p, TRUE>>}) \cup (D \ {<<p, FALSE>>}), steps, j + 1)
       ELSE IF <<p, FALSE>> \in C /\ <<p, TRUE>> \in D
            THEN Chain(cl, (C \ {<<p, FALSE>>}) \cup (D \ {<<p, TRUE>>}), steps, j + 1)
       ELSE BadClause
RECURSIVE Clauses(_, _, _)
Clauses(nodes, k, cl) ==
  IF k > Len(nodes) THEN cl
  ELSE LET n == nodes[k]
           c == IF n.kind = "leaf" THEN LeafClause(n)
                ELSE IF n.first \in DOMAIN cl /\ \A j \in DOMAIN n.steps : n.steps[j].c \in DOMAIN cl
                     THEN Chain(cl, cl[n.first], n.steps, 1) ELSE BadClause
       IN Clauses(nodes, k + 1, (n.id :> c) @@ cl)
ClauseMap(nodes) == Clauses(nodes, 1, <<>>)
StepsValid(nodes) == LET cl == ClauseMap(nodes) IN \A n \in DOMAIN cl : cl[n] # BadClause
\* the statement ends with a reference to the refutation: it must be bound and be the empty clause
RootClosed(nodes, root) == root \in Ids(nodes, Len(nodes)) /\ ClauseMap(nodes)[root] = {}

\* leaves: activation of a level = unit clause (not .frameK)
IsActivation(n) == n.kind = "leaf" /\ Len(n.lits) = 1 /\ n.lits[1].fid >= 0 /\ ~n.lits[1].s
ActivationsCurrent(nodes, activeFids) ==
  \A k \in DOMAIN nodes : IsActivation(nodes[k]) => nodes[k].lits[1].fid \in activeFids
\* a leaf guarded by the literal of a level that is not active can only be "used" together with the
\* activation of that level, which ActivationsCurrent forbids; such leaves are vacuous here
GuardOfPopped(n, activeFids) == \E i \in DOMAIN n.lits : n.lits[i].fid >= 0 /\ n.lits[i].s /\ n.lits[i].fid \notin activeFids
\* the literals of a leaf that matter semantically: guards of active levels are false and drop out
Effective(n, activeFids) == { i \in DOMAIN n.lits : ~(n.lits[i].fid >= 0 /\ n.lits[i].s /\ n.lits[i].fid \in activeFids) }
\* the negation of the effective part of the leaf, as a set of terms (to be conjoined with the assertions)
NegatedLeaf(n, activeFids) == { IF n.lits[i].s THEN n.lits[i].nt ELSE n.lits[i].t : i \in Effective(n, activeFids) }
=============================================================================
