------------------------------ MODULE Script ------------------------------
(***************************************************************************)
(* The SMT-LIB command machine of OpenSMT2 (Interpret + MainSolver as seen *)
(* from standard output): the reference semantics against which every      *)
(* response of the executable is judged.                                   *)
(*                                                                         *)
(* Each command has an EFFECT (how the abstract state changes when the     *)
(* command is accepted) and a GUARD (what the response must satisfy for    *)
(* the listed properties to hold).  The exhaustive configuration           *)
(* (MC_Script) conjoins them; the trace specification (Script_Trace) fires *)
(* the effect unconditionally and records a failed guard in a monitor      *)
(* variable, so that a run is replayed to its end and every violation is   *)
(* attributed to the property and the trace line where it happens.         *)
(*                                                                         *)
(* A rejected command (response "(error ...)") is the single action        *)
(* Reject: it leaves the whole state unchanged - this is property C19.     *)
(***************************************************************************)
EXTENDS Sat, Proof

VARIABLES
  tt,       \* term table of the current family of runs
  dom,      \* grid for the kernel's own model search (see Sat)
  inited,   \* set-logic has been accepted
  opts,     \* option name -> value (strings), only the options semantics depends on
  stack,    \* sequence of frames; a frame is a sequence of [t |-> term, nm |-> name or ""]
  names,    \* name -> [t |-> term, lvl |-> level]: every :named term, top level or nested
  defs,     \* name -> [p, b, lvl]: define-fun
  mode,     \* "start" | "sat" | "unsat" | "unknown": result of the last check-sat
  model,    \* last model printed by get-model in this sat mode, or <<>>
  errs,     \* number of rejected commands so far (exit status = IF errs > 0 THEN 1 ELSE 0)
  fids,     \* frame id of every level of the stack (the base level has id 0); ids are never reused
  nextFid   \* the id the next pushed level gets

svars == <<tt, dom, inited, opts, stack, names, defs, mode, model, errs, fids, nextFid>>

DefaultOpts ==
  [ incremental |-> "true", globaldecl |-> "false", models |-> "false",
    cores |-> "false", mincores |-> "false", fullcores |-> "false",
    itp |-> "false", proofs |-> "false", assignments |-> "false" ]

OptKey(k) ==
  CASE k = ":incremental"           -> "incremental"
    [] k = ":global-declarations"   -> "globaldecl"
    [] k = ":produce-models"        -> "models"
    [] k = ":produce-unsat-cores"   -> "cores"
    [] k = ":minimal-unsat-cores"   -> "mincores"
    [] k = ":print-cores-full"      -> "fullcores"
    [] k = ":produce-interpolants"  -> "itp"
    [] k = ":produce-proofs"        -> "proofs"
    [] k = ":produce-assignments"   -> "assignments"
    [] OTHER -> "other"

Depth == Len(stack) - 1                       \* current assertion level
Flat == [i \in 1..Len(stack) |-> stack[i]]
RECURSIVE FlatFrom(_, _)
FlatFrom(s, i) == IF i > Len(s) THEN <<>> ELSE s[i] \o FlatFrom(s, i + 1)
Entries  == FlatFrom(stack, 1)                \* all current assertions, in order
Active   == { Entries[i].t : i \in DOMAIN Entries }
Unnamed  == { Entries[i].t : i \in { j \in DOMAIN Entries : Entries[j].nm = "" } }
TopNames == { Entries[i].nm : i \in DOMAIN Entries } \ {""}
NamedT(n) == LET i == CHOOSE j \in DOMAIN Entries : Entries[j].nm = n IN Entries[i].t
Base == [x \in DOMAIN defs |-> [p |-> defs[x].p, b |-> defs[x].b]]
Global == opts.globaldecl = "true"

ScriptInit(t0, d0) ==
  /\ tt = t0 /\ dom = d0
  /\ inited = FALSE /\ opts = DefaultOpts
  /\ stack = << <<>> >> /\ names = <<>> /\ defs = <<>>
  /\ mode = "start" /\ model = <<>> /\ errs = 0
  /\ fids = <<0>> /\ nextFid = 1

\* ------------------------------------------------------------------ effects
Reject == errs' = errs + 1 /\ UNCHANGED <<tt, dom, inited, opts, stack, names, defs, mode, model, fids, nextFid>>

Silent == UNCHANGED svars       \* echo, set-info, get-info, get-option, declarations

SetLogicEff == inited' = TRUE /\ UNCHANGED <<tt, dom, opts, stack, names, defs, mode, model, errs, fids, nextFid>>

SetOptionEff(k, v) ==
  /\ opts' = IF OptKey(k) = "other" THEN opts ELSE [opts EXCEPT ![OptKey(k)] = v]
  /\ UNCHANGED <<tt, dom, inited, stack, names, defs, mode, model, errs, fids, nextFid>>

DefineEff(nm, p, b) ==
  /\ defs' = (nm :> [p |-> p, b |-> b, lvl |-> IF Global THEN 0 ELSE Depth]) @@ defs
  /\ UNCHANGED <<tt, dom, inited, opts, stack, names, mode, model, errs, fids, nextFid>>

\* inner: sequence of [nm, t] for :named subterms, nm/t the top-level name ("" if none)
NewNames(nm, t, inner) ==
  LET top == IF nm = "" THEN <<>> ELSE << [nm |-> nm, t |-> t] >> IN inner \o top
AssertEff(t, nm, inner) ==
  LET nn == NewNames(nm, t, inner)
      lvl == IF Global THEN 0 ELSE Depth IN
  /\ stack' = [stack EXCEPT ![Len(stack)] = Append(@, [t |-> t, nm |-> nm])]
  /\ names' = [x \in { nn[i].nm : i \in DOMAIN nn } |->
                 [t |-> nn[CHOOSE i \in DOMAIN nn : nn[i].nm = x].t, lvl |-> lvl]] @@ names
  /\ mode' = "start" /\ model' = <<>>
  /\ UNCHANGED <<tt, dom, inited, opts, defs, errs, fids, nextFid>>

RECURSIVE PushFrames(_, _)
PushFrames(s, n) == IF n = 0 THEN s ELSE PushFrames(Append(s, <<>>), n - 1)
PushEff(n) ==
  /\ stack' = PushFrames(stack, n)
  /\ fids' = fids \o [i \in 1..n |-> nextFid + i - 1] /\ nextFid' = nextFid + n
  /\ mode' = "start" /\ model' = <<>>
  /\ UNCHANGED <<tt, dom, inited, opts, names, defs, errs>>

Keep(f, d) == [x \in { y \in DOMAIN f : f[y].lvl <= d } |-> f[x]]
PopEff(n) ==
  /\ stack' = SubSeq(stack, 1, Len(stack) - n)
  /\ names' = Keep(names, Depth - n)
  /\ defs'  = Keep(defs, Depth - n)
  /\ fids' = SubSeq(fids, 1, Len(fids) - n)
  /\ mode' = "start" /\ model' = <<>>
  /\ UNCHANGED <<tt, dom, inited, opts, errs, nextFid>>

CheckSatEff(r) ==
  /\ mode' = r /\ model' = <<>>
  /\ UNCHANGED <<tt, dom, inited, opts, stack, names, defs, errs, fids, nextFid>>

GetModelEff(m) ==
  /\ model' = m
  /\ UNCHANGED <<tt, dom, inited, opts, stack, names, defs, mode, errs, fids, nextFid>>

\* ------------------------------------------------------------------- guards
\* legality of a command in the current state, where a property depends on it
PopLegal(n)  == n <= Depth /\ opts.incremental = "true"
PushLegal(n) == opts.incremental = "true"
NamesFresh(nm, inner) ==
  LET nn == NewNames(nm, 0, inner) IN
  /\ \A i \in DOMAIN nn : nn[i].nm \notin DOMAIN names
  /\ \A i, j \in DOMAIN nn : i # j => nn[i].nm # nn[j].nm
DefineFresh(nm) == nm \notin DOMAIN defs

\* C01 / C02: the answer does not contradict a definitive kernel verdict
Verdict(h) == SatStatus(tt, Active, Base, h, dom)
AnswerOK(r, v) == ~(r = "unsat" /\ v = "sat") /\ ~(r = "sat" /\ v = "unsat")

\* C03: a printed model defines what the assertions need and satisfies them
ModelDefinesAll(m) == Usable(tt, Active, Base, m)
ModelSatisfies(m)  == Holds(tt, Active, Over(Base, InterpOf(m)))
\* get-value: vs[i] is the value of ts[i] in the model m
ValueOK(m, t, v) ==
  LET I == Over(Base, InterpOf(m)) IN Eval(tt, t, I, <<>>) = Eval(tt, v, I, <<>>)
\* get-assignment: a printed truth value agrees with the model
AssignOK(m, nm, v) ==
  \/ v = "unknown"
  \/ /\ nm \in DOMAIN names
     /\ Eval(tt, names[nm].t, Over(Base, InterpOf(m)), <<>>) = (v = "true")

\* C06 / C07 / C21: unsat cores
CoreNames(core) == { core[i] : i \in DOMAIN core }
CoreNoRepeat(core) == \A i, j \in DOMAIN core : i # j => core[i] # core[j]
CoreCurrent(core)  == CoreNames(core) \subseteq TopNames
CoreSet(ns) == Unnamed \cup { NamedT(n) : n \in ns }
CoreUnsat(core, h) == ~Witness(tt, CoreSet(CoreNames(core)), Base, h, dom)
\* hm[i] : hints for the core without its i-th name
CoreIrreducible(core, hm) ==
  \A i \in DOMAIN core :
     SatStatus(tt, CoreSet(CoreNames(core) \ {core[i]}), Base, hm[i], dom) # "unsat"
RedundantMembers(core, hm) ==
  { core[i] : i \in { j \in DOMAIN core : SatStatus(tt, CoreSet(CoreNames(core) \ {core[j]}), Base, hm[j], dom) = "unsat" } }
\* full-core mode: the printed formulas fs are current assertions, unsat on their own
\* fx[i] : for the i-th printed formula, one record [a, x, h] per current assertion a, where x is the
\* term (xor fs[i] a) and h candidate models of x.  The printed formula counts as a current
\* assertion unless the kernel can tell it apart from every one of them.
FullCoreCurrent(fs, fx) ==
  \A i \in DOMAIN fs :
     \/ fs[i] \in Active
     \/ { fx[i][j].a : j \in DOMAIN fx[i] } # Active          \* comparison incomplete: no verdict
     \/ \E j \in DOMAIN fx[i] : ~CandWitness(tt, {fx[i][j].x}, Base, fx[i][j].h)
FullCoreUnsat(fs, h) == ~Witness(tt, { fs[i] : i \in DOMAIN fs }, Base, h, dom)
FullCoreIrreducible(fs, hm) ==
  \A i \in DOMAIN fs :
     SatStatus(tt, { fs[j] : j \in (DOMAIN fs) \ {i} }, Base, hm[i], dom) # "unsat"

\* C08 / C09 / C21: interpolation.  A group is a sequence of names.
\* a group member is a name (of a top-level assertion, or of a subterm that is itself asserted)
\* whose term is a current assertion
GroupLegal(g) == \A i \in DOMAIN g : g[i] \in DOMAIN names /\ names[g[i]].t \in Active
GroupSet(g) == { names[g[i]].t : i \in DOMAIN g }
RECURSIVE PrefixSet(_, _)
PrefixSet(groups, j) == IF j = 0 THEN {} ELSE GroupSet(groups[j]) \cup PrefixSet(groups, j - 1)
ASide(groups, j) == PrefixSet(groups, j)
BSide(groups, j) == Active \ ASide(groups, j)
SymsIn(F) == UNION { FreeSyms(tt, f) : f \in F }
\* itp, nitp: the interpolant and its negation as terms
ItpImplied(A, nitp, h)  == ~CandWitness(tt, A \cup {nitp}, Base, h)
ItpRefutesB(B, itp, h)  == ~CandWitness(tt, B \cup {itp}, Base, h)
ItpShared(A, B, itp)    == (FreeSyms(tt, itp) \ DOMAIN Base) \subseteq
                              (SymsOf(tt, A, Base) \cap SymsOf(tt, B, Base))
\* path property: I_j /\ G_{j+1} => I_{j+1}
PathStep(itp, G, nitpNext, h) == ~CandWitness(tt, {itp, nitpNext} \cup G, Base, h)

\* C10: printed proofs
ActiveFids == { fids[i] : i \in DOMAIN fids }
\* prem: the formulas the leaves must follow from - the roots given to the CNF converter for the levels on
\*   the stack (from the hook trace; they contain the auxiliary symbols of preprocessing that leaves mention),
\*   or the current assertions when no hook trace is available
\* h: candidate models of (prem and the negated k-th leaf)
LeafImplied(nodes, k, prem, h) ==
  LET n == nodes[k] IN
  \/ n.kind # "leaf" \/ IsActivation(n) \/ GuardOfPopped(n, ActiveFids)
  \/ ~CandWitness(tt, prem \cup NegatedLeaf(n, ActiveFids), Base, h)

\* --------------------------------------------------------------- invariants
TypeOK ==
  /\ inited \in BOOLEAN /\ errs \in Nat
  /\ mode \in {"start", "sat", "unsat", "unknown"}
  /\ Len(stack) >= 1
NamesScoped ==
  /\ \A n \in DOMAIN names : names[n].lvl <= Depth
  /\ \A n \in DOMAIN defs  : defs[n].lvl <= Depth
  /\ TopNames \subseteq DOMAIN names
=============================================================================
