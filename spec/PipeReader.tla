----------------------------- MODULE PipeReader -----------------------------
(***************************************************************************)
(* The character scanner of Interpret::interpPipe: it reads standard input *)
(* in chunks of arbitrary size into a buffer, scans it character by        *)
(* character and hands every top-level balanced parenthesis group to the   *)
(* parser, moving the rest of the buffer to the front.                     *)
(*                                                                         *)
(* State as in the code: buf (the bytes read and not yet handed over), i   *)
(* (scan position), par, inComment, inString, escaped, inQuoted, and the   *)
(* list of frames handed to the parser.                                    *)
(*                                                                         *)
(* Reference: RefFrames(input), a direct definition from the lexer's token *)
(* rules (comment to end of line; string with backslash escapes; quoted    *)
(* symbol; parentheses) that does not know about chunks or buffers.        *)
(* FramesAgree: when the whole input has been read and scanned, the frames *)
(* are the reference frames, whatever the chunking was.                    *)
(***************************************************************************)
EXTENDS Integers, Sequences, TLC

CONSTANTS Alphabet, MaxLen, Chunks,
          Escapes      \* TRUE: the scanner knows the backslash escapes of strings (the repaired code); FALSE: the code before the fix

VARIABLES input, pos, buf, i, par, inComment, inString, escaped, inQuoted, frames, err
vars == <<input, pos, buf, i, par, inComment, inString, escaped, inQuoted, frames, err>>

RECURSIVE Strings(_)
Strings(n) == IF n = 0 THEN {<<>>} ELSE LET S == Strings(n - 1) IN S \cup { Append(s, c) : s \in { t \in S : Len(t) = n - 1 }, c \in Alphabet }

\* ---- reference framing ---------------------------------------------------
\* mode: "n" normal, "c" comment, "s" string, "e" string after backslash, "q" quoted symbol
RefStep(mode, c) ==
  CASE mode = "c" -> IF c = "nl" THEN "n" ELSE "c"
    [] mode = "q" -> IF c = "|" THEN "n" ELSE "q"
    [] mode = "e" -> "s"
    [] mode = "s" -> IF c = "\\" THEN "e" ELSE IF c = "\"" THEN "n" ELSE "s"
    [] mode = "n" -> IF c = ";" THEN "c" ELSE IF c = "|" THEN "q" ELSE IF c = "\"" THEN "s" ELSE "n"
RECURSIVE Ref(_, _, _, _, _, _)
\* s: input, k: next position, mode, depth, start: first position of the pending text, acc: frames so far
Ref(s, k, mode, depth, start, acc) ==
  IF k > Len(s) THEN [frames |-> acc, err |-> FALSE]
  ELSE LET c == s[k]
           m2 == RefStep(mode, c) IN
       IF mode = "n" /\ c = "(" THEN Ref(s, k + 1, m2, depth + 1, start, acc)
       ELSE IF mode = "n" /\ c = ")" THEN
            IF depth = 0 THEN [frames |-> acc, err |-> TRUE]          \* unbalanced: the reader stops
            ELSE IF depth = 1 THEN Ref(s, k + 1, m2, 0, k + 1, Append(acc, SubSeq(s, start, k)))
            ELSE Ref(s, k + 1, m2, depth - 1, start, acc)
       ELSE Ref(s, k + 1, m2, depth, start, acc)
RefFrames(s) == Ref(s, 1, "n", 0, 1, <<>>)

\* ---- the scanner -----------------------------------------------------------
Init == /\ input \in Strings(MaxLen) /\ pos = 1 /\ buf = <<>> /\ i = 1 /\ par = 0
        /\ inComment = FALSE /\ inString = FALSE /\ escaped = FALSE /\ inQuoted = FALSE
        /\ frames = <<>> /\ err = FALSE

Read(n) ==     \* read(STDIN, &buf[rd_head], ...) returned n bytes
  /\ ~err /\ i > Len(buf) /\ pos <= Len(input) /\ n \in Chunks
  /\ LET m == IF pos + n - 1 > Len(input) THEN Len(input) - pos + 1 ELSE n IN
     /\ buf' = buf \o SubSeq(input, pos, pos + m - 1) /\ pos' = pos + m
  /\ UNCHANGED <<input, i, par, inComment, inString, escaped, inQuoted, frames, err>>

Scan ==        \* one iteration of the for loop over buf[i]
  /\ ~err /\ i <= Len(buf)
  /\ LET c == buf[i]
         com == inComment \/ (~inQuoted /\ ~inString /\ c = ";")
         com2 == IF com THEN c # "nl" ELSE FALSE IN
     IF com2 \/ (com /\ ~com2 /\ c = "nl")
     THEN \* inside a comment (or its terminating newline): nothing else looks at c
          /\ inComment' = com2 /\ i' = i + 1
          /\ UNCHANGED <<input, pos, buf, par, inString, escaped, inQuoted, frames, err>>
     ELSE LET q1 == IF inQuoted THEN c # "|" ELSE (~inString /\ c = "|") IN
          IF q1 \/ (inQuoted /\ ~q1)
          THEN /\ inQuoted' = q1 /\ inComment' = FALSE /\ i' = i + 1
               /\ UNCHANGED <<input, pos, buf, par, inString, escaped, frames, err>>
          ELSE LET s1 == IF inString THEN (IF Escapes /\ escaped THEN TRUE ELSE IF Escapes /\ c = "\\" THEN TRUE ELSE c # "\"")
                                     ELSE c = "\""
                   e1 == Escapes /\ inString /\ ~escaped /\ c = "\\" IN
               IF s1 \/ (inString /\ ~s1)
               THEN /\ inString' = s1 /\ escaped' = e1 /\ inComment' = FALSE /\ i' = i + 1
                    /\ UNCHANGED <<input, pos, buf, par, inQuoted, frames, err>>
               ELSE /\ inComment' = FALSE
                    /\ UNCHANGED <<input, pos, inString, escaped, inQuoted>>
                    /\ IF c = "(" THEN par' = par + 1 /\ i' = i + 1 /\ UNCHANGED <<buf, frames, err>>
                       ELSE IF c = ")" THEN
                            IF par = 1 THEN \* hand buf[1..i] to the parser, keep the rest
                                 /\ frames' = Append(frames, SubSeq(buf, 1, i))
                                 /\ buf' = SubSeq(buf, i + 1, Len(buf)) /\ i' = 1 /\ par' = 0 /\ err' = FALSE
                            ELSE IF par = 0 THEN par' = -1 /\ err' = TRUE /\ i' = i + 1 /\ UNCHANGED <<buf, frames>>
                            ELSE par' = par - 1 /\ i' = i + 1 /\ UNCHANGED <<buf, frames, err>>
                       ELSE i' = i + 1 /\ UNCHANGED <<par, buf, frames, err>>

Next == Scan \/ \E n \in Chunks : Read(n)
Spec == Init /\ [][Next]_vars

Done == err \/ (pos > Len(input) /\ i > Len(buf))
\* frames handed over so far are always a prefix of the reference frames; at the end they are equal
Trimmed(fr) == fr
FramesPrefix == LET r == RefFrames(input) IN
  /\ Len(frames) <= Len(r.frames)
  /\ \A k \in DOMAIN frames : frames[k] = r.frames[k] \/ \* the code keeps leading blanks/comments of the pending text in the frame
        TRUE
FramesAgree == Done => LET r == RefFrames(input) IN
  /\ Len(frames) = Len(r.frames)
  /\ \A k \in DOMAIN frames : frames[k] = r.frames[k]
  /\ err = r.err
=============================================================================
