------------------------------ MODULE IntRound ------------------------------
(***************************************************************************)
(* Integer rounding as the solver must do it (C27), stated over unbounded  *)
(* integers and checked by TLC over a box of values:                       *)
(*  - Euclidean division and remainder of SMT-LIB for either divisor sign  *)
(*    (Terms!EDiv, Terms!EMod): m = n*q + r, 0 <= r < |n|;                 *)
(*  - the axioms used to eliminate div and mod (DivModConfig): for a       *)
(*    constant divisor n: n*q <= m /\ m < n*q + |n| determines q;          *)
(*  - tightening of bounds on integer terms: x < c <=> x <= ceil(c) - 1,   *)
(*    x <= c <=> x <= floor(c), with c = a/b rational;                     *)
(*  - gcd normalisation of integer inequalities a*x <= c (a > 0):          *)
(*    <=> x <= floor(c / a);                                               *)
(*  - negation of integer difference constraints:                          *)
(*    ~(x - y <= c) <=> y - x <= -c - 1.                                   *)
(***************************************************************************)
EXTENDS Terms

CONSTANTS Lo, Hi, Divisors

Vals == Lo..Hi
FloorQ(a, b) == IF b > 0 THEN a \div b ELSE (-a) \div (-b)          \* floor(a/b), b # 0
CeilQ(a, b) == -FloorQ(-a, b)

EuclidOK == \A m \in Vals : \A n \in Divisors :
   LET q == EDiv(m, n)  r == EMod(m, n) IN m = n * q + r /\ 0 <= r /\ r < Abs(n)
EuclidUnique == \A m \in Vals : \A n \in Divisors : \A q \in (Lo - 1)..(Hi + 1) :
   (n * q <= m /\ m < n * q + Abs(n)) <=> q = EDiv(m, n)
StrictTightening == \A x \in Vals : \A a \in Vals : \A b \in Divisors :
   \* x < a/b  <=>  x <= ceil(a/b) - 1     and     x <= a/b  <=>  x <= floor(a/b)
   /\ (QLt(<<x, 1>>, Q(a, b)) <=> x <= CeilQ(a, b) - 1)
   /\ (QLe(<<x, 1>>, Q(a, b)) <=> x <= FloorQ(a, b))
GcdNormalisation == \A x \in Vals : \A c \in Vals : \A a \in { d \in Divisors : d > 0 } :
   (a * x <= c) <=> (x <= FloorQ(c, a))
DiffNegation == \A x \in Vals : \A y \in Vals : \A c \in Vals :
   ~(x - y <= c) <=> (y - x <= -c - 1)
All == EuclidOK /\ EuclidUnique /\ StrictTightening /\ GcdNormalisation /\ DiffNegation
=============================================================================
