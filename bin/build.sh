#!/bin/bash
# Build /repo's current working tree with verification hooks enabled.
# usage: build.sh [flavour]   flavour: rel (default) | asan | tsan
set -e
FL=${1:-rel}
REPO=${VERIF_REPO:-/repo}
B=${VERIF_BUILD:-/verif/build}/$FL
GUARD=OPENSMT_VERIF_TRACE
case $FL in
  rel)  TYPE=Release; FLAGS="-D$GUARD -Wno-error";;
  asan) TYPE=RelWithDebInfo; FLAGS="-D$GUARD -Wno-error -fsanitize=address,undefined -fno-omit-frame-pointer -fno-sanitize-recover=undefined";;
  tsan) TYPE=RelWithDebInfo; FLAGS="-D$GUARD -Wno-error -fsanitize=thread -fno-omit-frame-pointer";;
  *) echo "unknown flavour $FL" >&2; exit 2;;
esac
mkdir -p $B
(
  flock 9
  if [ ! -f $B/build.ninja ]; then
    cmake -G Ninja -S $REPO -B $B -DCMAKE_BUILD_TYPE=$TYPE -DPACKAGE_TESTS=OFF -DBUILD_SHARED_LIBS=OFF \
      -DCMAKE_CXX_FLAGS="$FLAGS" > $B/cmake.log 2>&1 || { cat $B/cmake.log >&2; exit 2; }
  fi
  ninja -C $B -j16 > $B/ninja.log 2>&1 || { tail -50 $B/ninja.log >&2; exit 2; }
) 9> $B.lock
