#!/bin/bash
# Compile the C++ drivers against the hooked library built from /repo's working tree.
# usage: build_drivers.sh [flavour]
set -e
FL=${1:-rel}
cd "$(dirname "$0")/.."
REPO=${VERIF_REPO:-/repo}
B=${VERIF_BUILD:-/verif/build}/$FL
OUT=${VERIF_BUILD:-/verif/build}/drivers/$FL
mkdir -p $OUT
case $FL in
  rel)  FLAGS="-O1 -DNDEBUG";;
  asan) FLAGS="-O1 -g -DNDEBUG -fsanitize=address,undefined -fno-omit-frame-pointer";;
  tsan) FLAGS="-O1 -g -DNDEBUG -fsanitize=thread -fno-omit-frame-pointer";;
esac
for src in harness/drivers/*.cc; do
  name=$(basename $src .cc)
  if [ ! -x $OUT/$name ] || [ $src -nt $OUT/$name ] || [ $B/lib/libopensmt.a -nt $OUT/$name ]; then
    g++ -std=c++20 $FLAGS -DOPENSMT_VERIF_TRACE -I$REPO/src -I$B/src -o $OUT/$name $src $B/lib/libopensmt.a -lgmpxx -lgmp -lpthread \
      > $OUT/$name.log 2>&1 || { grep -m5 -A3 "error" $OUT/$name.log >&2; exit 2; }
  fi
done
